#!/venv/bin/python
"""Run further checks against an already confirmed seeded change and merge the outcome into its meta.json.

usage: tools/recheck_seeded.py <property>/<name> C05,C14 [--tier quick]

Works in its own scratch worktree of /repo under /tmp (removed afterwards); never touches /repo's working tree.
"""
import json
import os
import subprocess
import sys
import time

VERIF = "/verif"


def sh(cmd, cwd=None, timeout=7200):
    p = subprocess.run(cmd, shell=True, cwd=cwd, capture_output=True, text=True, timeout=timeout)
    return p.returncode, (p.stdout + p.stderr)


def main():
    key, checks = sys.argv[1], sys.argv[2].split(",")
    tier_args = "--tier quick"
    d = f"{VERIF}/seeded/{key}"
    mp = d + "/meta.json"
    meta = json.load(open(mp))
    wt = f"/tmp/recheckwt-{key.replace('/', '-')}-{os.getpid()}"
    sh(f"git -C /repo worktree add -q --detach {wt} HEAD")
    try:
        rc, out = sh(f"git apply {d}/patch.diff || git apply -3 {d}/patch.diff", cwd=wt)
        if rc != 0:
            print("patch does not apply", out[-300:])
            return 1
        for c in checks:
            t0 = time.time()
            rcc, outc = sh(f"VERIF_EVIDENCE_DIR={wt}/.evidence VERIF_REPO={wt} ./check {c} {tier_args}", cwd=VERIF)
            lines = [l for l in outc.splitlines() if l.startswith(("violation", "VIOLATION", "HARNESS", "[" + c))]
            meta.setdefault("checks", {})[c] = {
                "rc": rcc, "wall_s": round(time.time() - t0),
                "violation_lines": [l[:300] for l in lines if l.startswith("violation")][:6],
                "summary": [l for l in lines if l.startswith("[")][-1:],
            }
            meta.setdefault("ran", []).append(f"VERIF_REPO=<tree> ./check {c} {tier_args} -> rc={rcc}")
            print(key, c, rcc, meta["checks"][c]["violation_lines"][:1])
        json.dump(meta, open(mp, "w"), indent=1)
    finally:
        sh(f"git -C /repo worktree remove --force {wt}")
        sh("git -C /repo worktree prune")
    return 0


if __name__ == "__main__":
    sys.exit(main())
