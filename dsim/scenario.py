"""Shared workload pieces: records, analysis configurations, custom plans, windows."""
import math

import numpy as np

from . import rng as R

# ------------------------------------------------------------------ windows

def _win_ones(L):
    return np.ones(L)


def _win_bartlett(L):
    return np.bartlett(L) + 0.05


def _win_signed(L):
    n = np.arange(L, dtype=np.float64)
    return np.cos(0.9 * n + 0.3) + 0.25 * np.sin(2.3 * n)


def _win_ramp(L):
    return 0.2 + np.arange(L, dtype=np.float64) / max(L, 1)


def _win_gated(L):
    """Hann-like taper with exact zeros at interior taps (a gated / blanked user window)."""
    w = 0.1 + np.hanning(L + 2)[1:-1]
    w[2::4] = 0.0
    if L >= 6:
        w[L // 2] = 0.0
    return w


WINDOWS = {"ones": _win_ones, "bartlett": _win_bartlett, "signed": _win_signed, "ramp": _win_ramp, "gated": _win_gated}


class InjectedFault(RuntimeError):
    """Raised by a FaultyWindow when the simulator armed it."""


class FaultyWindow:
    """A user window callable whose next k-th call can be made to fail (injected fault); picklable, name-preserving."""

    def __init__(self, name):
        self.name = name
        self.__name__ = "faulty_" + name
        self.countdown = None
        self.fired = 0

    def arm(self, k):
        self.countdown = int(k)

    def disarm(self):
        self.countdown = None

    def __call__(self, L):
        if self.countdown is not None:
            self.countdown -= 1
            if self.countdown <= 0:
                self.countdown = None
                self.fired += 1
                raise InjectedFault(f"injected failure of the window callable for L={L}")
        return WINDOWS[self.name](L)


def resolve_win(name):
    """name -> value for SpectrumAnalyzer(win=...)"""
    if name in ("kaiser", "hann", "hanning", "Kaiser", "HANN"):
        return name
    if name == "np_kaiser":
        return np.kaiser
    if name == "sp_kaiser":
        from scipy.signal.windows import kaiser as spk

        return spk
    return WINDOWS[name]


def kaiser_alpha_ref(psll):
    """The documented cubic alpha(psll) (Heinzel et al.), written out independently."""
    a0 = -0.0821377
    a1 = 4.71469
    a2 = -0.493285
    a3 = 0.0889732
    x = psll / 100.0
    return ((((a3 * x) + a2) * x) + a1) * x + a0


def reference_window(win, psll, L):
    """Independent rebuild of the configured window for length L (R2)."""
    if win in ("kaiser", "Kaiser", "np_kaiser", "sp_kaiser"):
        return np.kaiser(L + 1, kaiser_alpha_ref(psll) * np.pi)[:-1].astype(np.float64)
    if win in ("hann", "hanning", "HANN"):
        return np.hanning(L).astype(np.float64)
    return np.asarray(WINDOWS[win](L), dtype=np.float64)


# ------------------------------------------------------------------ records

RECIPES = ["noise", "noise", "sine+noise", "trend+noise", "offset+noise", "multisine", "impulses", "const", "zeros", "randwalk", "line+floor", "steepred", "neg_copy", "identical", "gapped"]


def gen_data_spec(rw, N, channels, recipes=None):
    spec = {
        "N": int(N),
        "channels": int(channels),
        "recipe": rw.choice(recipes or RECIPES),
        "rng": rw.randrange(0, 2 ** 31),
        "scale": rw.choice([1.0, 1.0, 1e-3, 1e3, 1e6, 0.37, 1e-9]),
        "offset": rw.choice([0.0, 0.0, 1.0, -5.0, 1e3]),
        "coupling": rw.choice([0.0, 0.5, 1.0, -2.0]),
    }
    if spec["recipe"] in ("sine+noise", "line+floor"):
        spec["line_f"] = round(rw.uniform(0.05, 0.45), 4)     # line frequency in cycles/sample, known to the generator
    return spec


def make_record(spec):
    """Deterministic float64 array, shape (N,) or (2, N), finite."""
    N, ch = spec["N"], spec["channels"]
    g = np.random.default_rng(spec["rng"])
    t = np.arange(N, dtype=np.float64)
    rec = spec["recipe"]

    def one(k):
        if rec == "noise":
            return g.normal(size=N)
        if rec == "sine+noise":
            f = g.uniform(0.01, 0.45)
            if spec.get("line_f") is not None:
                f = spec["line_f"]
            return np.sin(2 * np.pi * f * t + g.uniform(0, 6)) + 0.1 * g.normal(size=N)
        if rec == "trend+noise":
            c = g.normal(size=3)
            u = t / max(N - 1, 1)
            return 5 * c[0] + 20 * c[1] * u + 30 * c[2] * u * u + g.normal(size=N)
        if rec == "offset+noise":
            return 100.0 + g.normal(size=N)
        if rec == "multisine":
            y = np.zeros(N)
            for _ in range(4):
                y += g.uniform(0.1, 2) * np.cos(2 * np.pi * g.uniform(0.0, 0.5) * t + g.uniform(0, 6))
            return y
        if rec == "impulses":
            y = np.zeros(N)
            idx = g.integers(0, N, size=max(1, N // 16))
            y[idx] = g.normal(size=idx.size) * 10
            return y
        if rec == "const":
            return np.full(N, 3.25)
        if rec == "zeros":
            return np.zeros(N)
        if rec == "randwalk":
            return np.cumsum(g.normal(size=N))
        if rec == "line+floor":      # > 150 dB of dynamic range between the line and the floor
            f = g.uniform(0.05, 0.45)
            if spec.get("line_f") is not None:
                f = spec["line_f"]
            return np.sin(2 * np.pi * f * t + g.uniform(0, 6)) + 1e-8 * g.normal(size=N)
        if rec == "gapped":          # exact-zero stretches (zero-filled data gaps), longer than many segments
            v = g.normal(size=N)
            for _ in range(int(g.integers(1, 4))):
                a = int(g.integers(0, max(1, N - 1)))
                v[a:a + int(g.integers(max(2, N // 10), max(3, N // 3)))] = 0.0
            return v
        if rec == "steepred":        # PSD ~ 1/f^4: doubly integrated noise
            return np.cumsum(np.cumsum(g.normal(size=N)))
        raise ValueError(rec)

    if rec in ("neg_copy", "identical", "scaled_copy"):
        # second channel is an exact (inverted / scaled) copy of the first: coherence 1, Hxy on the real axis
        rec_ = rec
        rec = "noise"
        x = one(0) + 0.3 * np.sin(0.37 * t)
        if ch == 1:
            return np.ascontiguousarray(x * spec["scale"] + spec["offset"], dtype=np.float64)
        k = {"neg_copy": -2.5, "identical": 1.0, "scaled_copy": 0.125}[rec_]
        xs = x * spec["scale"] + spec["offset"]
        return np.ascontiguousarray(np.vstack([xs, k * xs]), dtype=np.float64)
    x = one(0)
    if ch == 1:
        out = x * spec["scale"] + spec["offset"]
        return np.ascontiguousarray(out, dtype=np.float64)
    y = one(1)
    y = y + spec["coupling"] * x
    out = np.vstack([x, y]) * spec["scale"] + spec["offset"]
    return np.ascontiguousarray(out, dtype=np.float64)


# ------------------------------------------------------------------ configurations

SCHEDULERS = ["lpsd", "ltf", "vectorized_ltf", "new_ltf"]


def gen_config(rw, N, *, backends=("numba",), allow_custom=True, allow_band=True, allow_force=True, min_Lmin=1):
    sched = rw.choice(SCHEDULERS + (["custom", "custom"] if allow_custom else []))
    win = rw.choice(["kaiser", "kaiser", "hann", "ones", "bartlett", "signed", "ramp", "np_kaiser", "gated"])
    cfg = {
        "fs": rw.choice([1.0, 2.0, 2.0, 10.0, 1000.0, 0.5]),
        "olap": rw.choice(["default", "default", 0.0, 0.3, 0.5, 0.75]),
        "bmin": rw.choice([1.0, 1.0, 1.5, 2.0, 3.0]),
        "Lmin": max(min_Lmin, rw.choice([1, 1, 2, 4, 8, 16])),
        "Jdes": rw.choice([3, 5, 10, 20, 50]),
        "Kdes": rw.choice([1, 2, 5, 10, 50]),
        "order": rw.choice([-1, 0, 0, 1, 2]),
        "win": win,
        "psll": rw.choice([50, 100, 150, 200, round(rw.uniform(40, 200), 1)]),
        "scheduler": sched,
        "num_patch_pts": rw.choice([None, 2, 5, 50]),
        "band": None,
        "force_target_nf": False,
        "backend": rw.choice(list(backends)),
    }
    if rw.random() < 0.08:
        cfg["verbose"] = True                      # logging path; must not change any number
    if rw.random() < 0.1 and win in ("kaiser", "hann"):
        cfg["win"] = {"kaiser": rw.choice(["Kaiser", "sp_kaiser"]), "hann": rw.choice(["HANN", "hanning"])}[win]   # spelling / callable variants
    if cfg["Lmin"] > N:
        cfg["Lmin"] = max(1, N // 2)
    if sched == "custom":
        cfg["custom_plan"] = gen_custom_plan(rw, N, cfg["fs"])
        cfg["Lmin"] = 1
        if rw.random() < 0.3:
            cfg["custom_b_offset"] = rw.choice([0.25, -0.4, 3.0])
    elif allow_force and rw.random() < 0.1:
        # the Jdes search starts at Jdes=100, so only bin counts between nf(Jdes=100) and N/2-1 are reachable
        cfg["force_target_nf"] = True
        cfg["Jdes"] = rw.randrange(max(2, int(0.75 * (N // 2))), max(3, N // 2))
        cfg["bmin"] = 1.0
        cfg["Lmin"] = 1
    if allow_band and rw.random() < 0.25:
        fs = cfg["fs"]
        lo = rw.uniform(0.0, 0.3) * fs
        hi = lo + rw.uniform(0.01, 0.4) * fs
        cfg["band"] = [round(lo, 6), round(hi, 6)]
    return cfg


def make_big_plan(rw, cfg):
    """Turn a configuration into one whose plan has hundreds of bins (block / batch thresholds inside the library)."""
    cfg["scheduler"] = rw.choice(["ltf", "lpsd", "vectorized_ltf"])
    cfg.pop("custom_plan", None)
    cfg["Jdes"] = rw.choice([300, 420, 600, 900])
    cfg["Kdes"] = rw.choice([2, 5, 10])
    cfg["Lmin"] = 1
    cfg["bmin"] = 1.0
    cfg["band"] = None
    cfg["force_target_nf"] = False
    cfg["olap"] = rw.choice(["default", 0.5])
    return cfg


def gen_custom_plan(rw, N, fs, max_bins=14, Lcap=None, sorted_f=True):
    """Adversarial request history for the per-call window / basis caches:
    alternating and recurring lengths, equal lengths at different frequencies,
    uniform or ragged K, unsorted / repeated starts."""
    Lcap = min(N, Lcap or N)
    nb = rw.randrange(1, max_bins + 1)
    pool = sorted({max(1, min(Lcap, v)) for v in (rw.randrange(1, Lcap + 1) for _ in range(rw.randrange(1, 5)))})
    style = rw.choice(["alternate", "random", "blocks", "single", "uniformK"])
    uniform_k = style == "uniformK" or rw.random() < 0.2
    kfix = rw.randrange(1, 6)
    bins = []
    f = rw.uniform(0.0, 0.05) * fs
    for j in range(nb):
        if style == "alternate":
            L = pool[j % len(pool)]
        elif style == "single":
            L = pool[0]
        elif style == "blocks":
            L = pool[(j // 2) % len(pool)]
        else:
            L = rw.choice(pool)
        K = kfix if uniform_k else rw.randrange(1, 8)
        span = N - L
        kind = rw.random()
        if span == 0:
            starts = [0] * (1 if kind < 0.7 else K)
        elif kind < 0.08 and K >= 3 and span >= 2 * (K - 1):
            h = rw.randrange(1, span // (K - 1) + 1)
            s0 = rw.randrange(0, span - h * (K - 1) + 1)
            starts = [s0, s0 + h] + sorted(rw.randrange(s0, s0 + h * (K - 1) + 1) for _ in range(K - 3)) + [s0 + h * (K - 1)]
        elif kind < 0.6:
            starts = sorted(rw.randrange(0, span + 1) for _ in range(K))
        elif kind < 0.8:
            starts = [rw.randrange(0, span + 1) for _ in range(K)]  # unsorted, repeats allowed
        elif kind < 0.9:
            starts = [0] + [span] * (K - 1)
        else:
            starts = [int(round(i * span / max(K - 1, 1))) for i in range(K)]
        if uniform_k:
            starts = (starts * K)[:K]
        # frequency: integer bin, fractional bin, 0, near Nyquist
        r = rw.random()
        if r < 0.5:
            f = f + rw.uniform(0.001, 0.06) * fs
        if f > 0.5 * fs:
            f = rw.uniform(0, 0.5) * fs
        fj = f
        if r > 0.9:
            fj = round(f * L / fs) * fs / L  # exact integer bin
        bins.append([float(fj), int(L), [int(s) for s in starts]])
    if not sorted_f:
        return bins          # bins in the order the (custom) scheduler emits them: not ascending in frequency
    # np.interp etc. want increasing f in a result: keep them sorted but keep L order adversarial
    fsorted = sorted(b[0] for b in bins)
    for b, fv in zip(bins, fsorted):
        b[0] = fv
    # strictly increasing
    for i in range(1, len(bins)):
        if bins[i][0] <= bins[i - 1][0]:
            bins[i][0] = bins[i - 1][0] + 1e-3 * fs
    return bins


class CustomPlan:
    """A scheduler callable (documented seam) that returns exactly the stored plan.  Top-level class: picklable."""

    __name__ = "custom_plan"

    def __init__(self, bins, b_offset=0.0):
        self.bins = bins
        self.b_offset = b_offset     # the reported bin number is informational: results must come from f, not from b

    def __call__(self, N, fs, olap, bmin, Lmin, Jdes, Kdes, **kw):
        bins = self.bins
        f = np.array([b[0] for b in bins], dtype=np.float64)
        L = np.array([b[1] for b in bins], dtype=np.int64)
        D = [np.array(b[2], dtype=np.int64) for b in bins]
        K = np.array([len(d) for d in D], dtype=np.int64)
        r = fs / L.astype(np.float64)
        return {
            "f": f, "r": r, "b": f / r + self.b_offset, "m": f / r + self.b_offset, "L": L, "K": K, "navg": K.copy(), "D": D,
            "O": np.full(len(bins), float(olap)), "nf": len(bins),
        }


class PermutedPlan:
    """A user scheduler that calls a built-in scheduler and emits its bins in another order (custom schedulers need
    not be ascending in frequency).  Top-level class: picklable."""

    def __init__(self, base, perm_seed):
        self.base = base
        self.perm_seed = perm_seed
        self.__name__ = "permuted_" + base

    def __call__(self, **kw):
        import random as _random
        from speckit import schedulers as S

        fn = {"lpsd": S.lpsd_plan, "ltf": S.ltf_plan, "vectorized_ltf": S.vectorized_ltf_plan, "new_ltf": S.new_ltf_plan}[self.base]
        if self.base != "new_ltf":
            kw.pop("num_patch_pts", None)
        p = fn(**kw)
        nf = len(p["f"])
        perm = list(range(nf))
        _random.Random(self.perm_seed).shuffle(perm)
        out = dict(p)
        for k, v in p.items():
            if k == "D":
                out[k] = [p["D"][i] for i in perm]
            elif isinstance(v, np.ndarray) and v.shape[:1] == (nf,):
                out[k] = v[perm]
            elif isinstance(v, list) and len(v) == nf:
                out[k] = [v[i] for i in perm]
        return out


def custom_scheduler(bins, fs_, b_offset=0.0):
    return CustomPlan(bins, b_offset)


class SpyWindow:
    """A user window callable that looks at the caller's buffer every time the library calls it, i.e. while a plan /
    compute / single-bin call is in flight (the in-flight ownership monitor)."""

    def __init__(self, name, probe):
        self.name = name
        self.__name__ = "spy_" + name
        self.probe = probe
        self.calls = 0

    def __call__(self, L):
        self.calls += 1
        self.probe()
        return WINDOWS[self.name](L)


def analyzer_kwargs(cfg, win_obj=None):
    kw = dict(
        olap=cfg["olap"], bmin=cfg["bmin"], Lmin=cfg["Lmin"], Jdes=cfg["Jdes"], Kdes=cfg["Kdes"],
        order=cfg["order"], psll=cfg["psll"], win=win_obj if win_obj is not None else resolve_win(cfg["win"]),
        num_patch_pts=cfg.get("num_patch_pts"), force_target_nf=cfg.get("force_target_nf", False),
        backend=cfg.get("backend", "numba"),
        verbose=bool(cfg.get("verbose", False)),
    )
    if cfg.get("band") is not None:
        kw["band"] = (cfg["band"][0], cfg["band"][1])
    if cfg.get("scheduler_perm") is not None and cfg["scheduler"] != "custom":
        kw["scheduler"] = PermutedPlan(cfg["scheduler"], cfg["scheduler_perm"])
    elif cfg["scheduler"] == "custom":
        kw["scheduler"] = custom_scheduler(cfg["custom_plan"], cfg["fs"], cfg.get("custom_b_offset", 0.0))
    else:
        kw["scheduler"] = cfg["scheduler"]
    return kw


LAYOUTS = ["2xN", "2xN", "2xN", "Nx2_view", "list"]


def as_layout(data, layout):
    """The caller's way of handing over two channels.  Both alternatives alias the caller's (2, N) buffer (a transposed
    view, a list of its rows), so in-place refills of that buffer still reach whatever the library keeps of it."""
    if layout in (None, "2xN") or not isinstance(data, np.ndarray) or data.ndim != 2 or data.shape[0] != 2 or data.shape[1] <= 2:
        return data
    if layout == "Nx2_view":
        return data.T
    if layout == "list":
        return [data[0], data[1]]
    return data


def build_analyzer(data, cfg, win_obj=None):
    from speckit import SpectrumAnalyzer

    return SpectrumAnalyzer(as_layout(data, cfg.get("layout")), cfg["fs"], **analyzer_kwargs(cfg, win_obj))
