"""Simulated GPU (DESIGN 2.4): Numba's CPU simulator of CUDA with *its thread scheduling replaced*.

All threads of all blocks of a launch are parked and released one at a time by the
seeded baton scheduler (blocks are concurrent, as on hardware); uninitialised device
memory is NaN-poisoned; every block gets its own shared memory; __syncthreads is a
simulated barrier.
"""
import contextlib
import sys
import threading

import numpy as np

from . import parfor, sched

_installed = False
_controlled = False
_pending = []
_running = False


def controlled():
    return _controlled


class _PerBlockShared:
    """cuda.shared.array with one allocation table per block (the stock simulator runs blocks one after the other
    and reuses a single table)."""

    def __init__(self, dynshared_size):
        self._tables = {}
        self._dyn = {}
        self._dynshared_size = dynshared_size

    def array(self, shape, dtype):
        from numba.core import types
        from numba.np import numpy_support

        if isinstance(dtype, types.Type):
            dtype = numpy_support.as_dtype(dtype)
        dtype = np.dtype(dtype)
        th = threading.current_thread()
        b = getattr(th, "blockIdx", None)
        bkey = (b.x, b.y, b.z) if b is not None else None
        if shape == 0:
            buf = self._dyn.get(bkey)
            if buf is None:
                buf = np.zeros(self._dynshared_size, dtype=np.byte)
                self._dyn[bkey] = buf
            return np.frombuffer(buf.data, dtype=dtype, count=self._dynshared_size // dtype.itemsize)
        fr = sys._getframe(1)
        key = (bkey, fr.f_code.co_filename, fr.f_lineno)
        res = self._tables.get(key)
        if res is None:
            res = np.empty(shape, dtype)
            if res.dtype.kind == "f":
                res.fill(np.nan)
            self._tables[key] = res
        return res


def install():
    """Patch the two scheduling entry points of numba.cuda.simulator.kernel (idempotent)."""
    global _installed, _controlled
    if _installed:
        return _controlled
    _installed = True
    try:
        from numba.cuda.simulator import kernel as K
        from numba import cuda

        BlockThread = K.BlockThread
        orig_swapped = K.swapped_cuda_module
        K.BlockManager.run  # noqa: B018 - must exist
    except Exception:
        _controlled = False
        return False

    class SimBlockThread(BlockThread):
        def syncthreads(self):
            ctx = parfor.current()
            if ctx is not None and ctx.baton is not None and ctx.baton.active:
                ctx.count("gpu_syncthreads")
                ctx.baton.barrier()
            else:  # pragma: no cover - not under the baton
                raise RuntimeError("syncthreads outside the simulated scheduler")

    def run_registered(self, grid_point, *args):
        _pending.append((self, tuple(grid_point), args))

    @contextlib.contextmanager
    def swapped(fn, fake_cuda_module):
        global _running
        with orig_swapped(fn, fake_cuda_module):
            yield
            if _pending and not _running:
                blocks = list(_pending)
                del _pending[:]
                _running = True
                try:
                    _run_blocks(blocks, fake_cuda_module, SimBlockThread)
                finally:
                    _running = False

    K.BlockManager.run = run_registered
    K.swapped_cuda_module = swapped

    # NaN-poisoned uninitialised device memory
    orig_device_array = cuda.device_array

    def device_array(*a, **k):
        arr = orig_device_array(*a, **k)
        ctx = parfor.current()
        if ctx is None or ctx.poison:
            try:
                inner = arr._ary
                if inner.dtype.kind == "f":
                    inner.fill(np.nan)
            except Exception:
                pass
        return arr

    cuda.device_array = device_array
    _controlled = True
    return True


def _run_blocks(blocks, fake_cuda_module, SimBlockThread):
    ctx = parfor.current()
    try:
        fake_cuda_module._shared = _PerBlockShared(getattr(fake_cuda_module._shared, "_dynshared_size", 0))
    except Exception:
        pass
    fns, groups, makers = [], [], []
    for g, (bm, grid_point, args) in enumerate(blocks):
        for block_point in np.ndindex(*bm._block_dim):
            def target(bm=bm, args=args):
                bm._f(*args)

            def maker(wrapped, bm=bm, grid_point=grid_point, block_point=block_point):
                # the simulator's own thread class carries threadIdx/blockIdx for cuda.grid();
                # its body is our baton wrapper around `target`
                return SimBlockThread(wrapped, bm, grid_point, block_point, False)

            fns.append(target)
            groups.append(g)
            makers.append(maker)
    if ctx is None:
        ctx = parfor.SimContext(__import__("random").Random(0))
    nthreads = len(fns)
    if len(blocks) > 1:
        ctx.count("gpu_multi_block")
    ctx.count("gpu_launch")
    ctx.count("gpu_threads", nthreads)
    serial = ctx.serial
    baton = sched.Baton(ctx.rnd, parfor._is_simulated, ctx.stats, "serial_natural" if serial else ctx.policy)
    if serial:
        baton.policy = "serial_perm"
        baton.rnd = _NoShuffle()
    ctx.baton = baton
    try:
        baton.run(fns, groups=groups, make_threads=makers)
    finally:
        ctx.baton = None


class _NoShuffle:
    """Deterministic stand-in PRNG for the serial baseline: natural order, never yields."""

    def shuffle(self, x):
        return None

    def randrange(self, *a):
        return a[0] if len(a) > 1 else 0

    def random(self):
        return 1.0

    def choice(self, seq):
        return seq[0]
