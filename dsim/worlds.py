"""Execution worlds (DESIGN 2.6): which engine runs the kernels of an analyzer, under which knobs."""
import contextlib
import functools

import numpy as np

NUMBA_KERNELS = ["_stats_win_only_auto", "_stats_win_only_csd", "_stats_detrend0_auto", "_stats_detrend0_csd",
                 "_stats_poly_auto", "_stats_poly_csd"]
NP_KERNELS = [k + "_np" for k in NUMBA_KERNELS]
CUDA_KERNELS = [k + "_cuda" for k in NUMBA_KERNELS]


def prime_compiled():
    """Call every compiled kernel once (JIT cache priming)."""
    from speckit import core

    x = np.linspace(0.0, 1.0, 64) ** 2
    y = np.cos(np.arange(64.0))
    st = np.array([0, 8, 16], dtype=np.int64)
    w = np.hanning(8)
    for order in (1, 2):
        Q = core._build_Q(8, order)
        core._stats_poly_auto(x, st, 8, w, 0.3, Q)
        core._stats_poly_csd(x, y, st, 8, w, 0.3, Q)
    core._stats_win_only_auto(x, st, 8, w, 0.3)
    core._stats_win_only_csd(x, y, st, 8, w, 0.3)
    core._stats_detrend0_auto(x, st, 8, w, 0.3)
    core._stats_detrend0_csd(x, y, st, 8, w, 0.3)
    from speckit import noise

    noise.alpha_noise(10.0, 0.1, 4.0, 1.0, seed=1).get_series(4)


@contextlib.contextmanager
def patched(module, mapping):
    """Rebind module attributes for the duration of a block (the documented seam: analysis imports the kernel names)."""
    old = {}
    try:
        for k, v in mapping.items():
            old[k] = getattr(module, k)
            setattr(module, k, v)
        yield
    finally:
        for k, v in old.items():
            setattr(module, k, v)


@contextlib.contextmanager
def numpy_knob(chunk):
    """NumPy world with the chunk-size knob: every *_np kernel runs with _chunk=chunk (None = shipped default)."""
    from speckit import analysis, core

    if chunk is None:
        yield
        return
    mapping = {k: functools.partial(getattr(core, k), _chunk=int(chunk)) for k in NP_KERNELS}
    with patched(analysis, mapping):
        yield


@contextlib.contextmanager
def real_numba(threads=None, chunksize=None):
    """Real compiled kernels under a seeded (threads, chunksize) configuration; not schedule-controlled."""
    import numba

    old_t = numba.get_num_threads()
    old_c = numba.get_parallel_chunksize()
    try:
        if threads is not None:
            numba.set_num_threads(max(1, min(int(threads), numba.config.NUMBA_NUM_THREADS)))
        if chunksize is not None:
            numba.set_parallel_chunksize(int(chunksize))
        yield
    finally:
        numba.set_num_threads(old_t)
        numba.set_parallel_chunksize(old_c)
