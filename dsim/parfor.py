"""Simulated ``prange`` (DESIGN 2.3): the kernels' *current source* with the parallel loop body outlined,
iterations distributed over W simulated workers and interleaved by the baton scheduler."""
import ast
import inspect
import textwrap
import types

import numpy as np

from . import sched

SIM_PREFIX = "<sim:"
DISTRIBUTIONS = ["static", "static", "chunked", "dynamic", "reversed", "permuted"]


class Unsupported(Exception):
    pass


class SimContext:
    """Per-analysis simulation state: the schedule stream, knobs, statistics."""

    def __init__(self, rnd, serial=False, max_workers=6, poison=True, policy=None):
        self.rnd = rnd
        self.serial = serial
        self.max_workers = max_workers
        self.poison = poison
        self.policy = policy
        self.stats = sched.Stats()
        self.counters = {}
        self.baton = None
        self.commit_orders = set()
        self.parfor_calls = 0
        self.repo_files = ()

    def count(self, k, n=1):
        self.counters[k] = self.counters.get(k, 0) + n


_CTX = None


def current():
    return _CTX


def set_context(ctx):
    global _CTX
    _CTX = ctx


def _is_simulated(code):
    fn = code.co_filename
    if fn.startswith(SIM_PREFIX):
        return True
    return fn.endswith("/speckit/core.py") or fn.endswith("/speckit/core_cuda.py")


# --------------------------------------------------------------------------
# runtime of the outlined loop
# --------------------------------------------------------------------------

def sim_parfor(K, body):
    ctx = _CTX
    K = int(K)
    if ctx is None or ctx.serial or K <= 0:
        for j in range(K):
            body(j)
        return
    rnd = ctx.rnd
    ctx.parfor_calls += 1
    m = min(K, ctx.max_workers)
    W = rnd.randrange(1, m + 1)
    if W == 1 and m >= 2 and rnd.random() < 0.7:   # bias towards real concurrency
        W = rnd.randrange(2, m + 1)
    dist = rnd.choice(DISTRIBUTIONS)
    idx = list(range(K))
    if dist == "reversed":
        idx.reverse()
    elif dist == "permuted":
        rnd.shuffle(idx)
    commit = []
    if W == 1:
        ctx.count("parfor_single_worker")
        for j in idx:
            body(j)
            commit.append(j)
    else:
        if dist == "dynamic":
            cursor = [0]
            lists = None
        elif dist == "chunked":
            c = rnd.randrange(1, 4)
            lists = [[] for _ in range(W)]
            for b, start in enumerate(range(0, K, c)):
                lists[b % W].extend(idx[start:start + c])
        else:
            # contiguous blocks (what the workqueue layer does); sizes differ by at most one
            lists = []
            base, extra = divmod(K, W)
            pos = 0
            for w in range(W):
                n = base + (1 if w < extra else 0)
                lists.append(idx[pos:pos + n])
                pos += n
        baton = sched.Baton(rnd, _is_simulated, ctx.stats, ctx.policy)
        ctx.baton = baton

        def make(w):
            def work():
                t = baton.tasks[w]
                if lists is None:
                    while cursor[0] < K:
                        j = idx[cursor[0]]
                        cursor[0] += 1
                        t.in_body = True
                        body(j)
                        t.in_body = False
                        commit.append(j)
                else:
                    for j in lists[w]:
                        t.in_body = True
                        body(j)
                        t.in_body = False
                        commit.append(j)
            return work

        try:
            baton.run([make(w) for w in range(W)])
        finally:
            ctx.baton = None
        ctx.count("parfor_multi_worker")
        ctx.count("dist_" + dist)
        ctx.count("workers_%d" % W)
    if commit != sorted(commit):
        ctx.count("commit_order_nonmonotone")
    if len(ctx.commit_orders) < 4096:
        ctx.commit_orders.add(tuple(commit))


def sim_yield():
    ctx = _CTX
    if ctx is not None and ctx.baton is not None:
        ctx.baton.maybe_yield("rmw")


class _PoisonNumpy:
    """numpy proxy for the simulated namespace: np.empty returns NaN-poisoned memory."""

    def __init__(self, varying=False):
        self.poison_allocs = 0
        self.varying = varying      # library-level proxy: garbage differs from allocation to allocation, like a real heap
        self.faults = {}            # numpy function name -> countdown: that call raises MemoryError once (injected fault)
        self.fired = 0

    def arm_fault(self, name, k=1):
        self.faults[name] = int(k)

    def disarm_faults(self):
        self.faults.clear()

    def _garbage(self):
        """NaN, or - every other allocation of the varying proxy - a large finite value that is never the same twice."""
        self.poison_allocs += 1
        if self.varying and self.poison_allocs % 2 == 0:
            return 3.33e33 + 1e20 * self.poison_allocs
        return np.nan

    def empty(self, shape, dtype=np.float64, *a, **k):
        arr = np.empty(shape, dtype, *a, **k)
        ctx = _CTX
        if ctx is None or ctx.poison:
            if arr.dtype.kind == "f":
                arr.fill(self._garbage())
            elif arr.dtype.kind == "c":
                g = self._garbage()
                arr.fill(complex(g, g))
            elif arr.dtype.kind in "iu":
                arr.fill(np.iinfo(arr.dtype).min if arr.dtype.kind == "i" else np.iinfo(arr.dtype).max)
        return arr

    def empty_like(self, a, dtype=None, *args, **k):
        arr = np.empty_like(a, dtype, *args, **k)
        ctx = _CTX
        if ctx is None or ctx.poison:
            if arr.dtype.kind == "f":
                arr.fill(self._garbage())
            elif arr.dtype.kind == "c":
                g = self._garbage()
                arr.fill(complex(g, g))
        return arr

    def __getattr__(self, name):
        f = getattr(np, name)
        if self.faults and name in self.faults:
            proxy = self

            def faulty(*a, **k):
                c = proxy.faults.get(name)
                if c is not None:
                    c -= 1
                    if c <= 0:
                        del proxy.faults[name]
                        proxy.fired += 1
                        raise MemoryError(f"injected: numpy.{name} could not allocate its result")
                    proxy.faults[name] = c
                return f(*a, **k)

            return faulty
        return f


LIBRARY_NUMPY = None


def poison_library_namespaces():
    """Uninitialised memory is poison: ``np.empty`` / ``np.empty_like`` called from speckit's Python-level code
    (analysis, core's NumPy kernels) return NaN-filled arrays.  Correct code overwrites every element it reads."""
    import speckit.analysis as A

    # only modules without Numba-jitted functions: Numba resolves the global ``np`` of a jitted function's module
    # when it compiles a new signature, and must find the real numpy there (so speckit.core is left alone)
    global LIBRARY_NUMPY
    proxy = _PoisonNumpy(varying=True)
    if getattr(A, "np", None) is np:
        A.np = proxy
    LIBRARY_NUMPY = proxy
    return proxy


# --------------------------------------------------------------------------
# source transformation
# --------------------------------------------------------------------------

def _is_prange_call(node):
    if not isinstance(node, ast.Call):
        return False
    f = node.func
    if isinstance(f, ast.Name):
        return f.id in ("_prange", "prange")
    if isinstance(f, ast.Attribute):
        return f.attr == "prange"
    return False


class _AssignedNames(ast.NodeVisitor):
    def __init__(self):
        self.stored = set()
        self.aug = set()

    def visit_Name(self, node):
        if isinstance(node.ctx, (ast.Store, ast.Del)):
            self.stored.add(node.id)

    def visit_AugAssign(self, node):
        if isinstance(node.target, ast.Name):
            self.aug.add(node.target.id)
        self.generic_visit(node)

    def visit_FunctionDef(self, node):  # nested defs: do not descend
        self.stored.add(node.name)


class _ContinueToReturn(ast.NodeTransformer):
    """`continue` at the top nesting level of the outlined body becomes `return`."""

    def visit_For(self, node):
        return node  # inner loops keep their own continue/break

    def visit_While(self, node):
        return node

    def visit_Continue(self, node):
        return ast.copy_location(ast.Return(value=None), node)

    def visit_Break(self, node):
        raise Unsupported("break inside a prange body")


class _SplitRMW(ast.NodeTransformer):
    """a[i] op= e  on an array that is *not* private to the iteration  ->  load ; yield point ; store."""

    def __init__(self, private):
        self.private = private
        self.n = 0

    def visit_FunctionDef(self, node):
        return node

    def visit_AugAssign(self, node):
        tgt = node.target
        if isinstance(tgt, ast.Subscript):
            base = tgt.value
            while isinstance(base, (ast.Subscript, ast.Attribute)):
                base = base.value
            if isinstance(base, ast.Name) and base.id not in self.private:
                self.n += 1
                tmp = f"__rmw_{self.n}__"
                load = ast.Assign(targets=[ast.Name(id=tmp, ctx=ast.Store())],
                                  value=ast.Subscript(value=tgt.value, slice=tgt.slice, ctx=ast.Load()))
                yld = ast.Expr(value=ast.Call(func=ast.Name(id="__sim_yield__", ctx=ast.Load()), args=[], keywords=[]))
                store = ast.Assign(targets=[ast.Subscript(value=tgt.value, slice=tgt.slice, ctx=ast.Store())],
                                   value=ast.BinOp(left=ast.Name(id=tmp, ctx=ast.Load()), op=node.op, right=node.value))
                return [ast.copy_location(x, node) for x in (load, yld, store)]
        return node


class _Outliner(ast.NodeTransformer):
    def __init__(self, outer_assigned_before):
        self.count = 0
        self.outer = outer_assigned_before

    def visit_FunctionDef(self, node):
        # only the top-level kernel function is transformed; nested defs untouched
        node.body = self._block(node.body, set(a.arg for a in node.args.args))
        return node

    def _block(self, stmts, assigned):
        out = []
        for st in stmts:
            if isinstance(st, ast.For) and _is_prange_call(st.iter):
                out.extend(self._outline(st, set(assigned)))
            else:
                if isinstance(st, (ast.If, ast.With, ast.Try)):
                    for field in ("body", "orelse", "finalbody"):
                        if getattr(st, field, None):
                            setattr(st, field, self._block(getattr(st, field), assigned))
                out.append(st)
            v = _AssignedNames()
            v.visit(st)
            assigned |= v.stored
        return out

    def _outline(self, loop, assigned_before):
        if loop.orelse:
            raise Unsupported("prange loop with else clause")
        if not isinstance(loop.target, ast.Name):
            raise Unsupported("prange target is not a simple name")
        args = loop.iter.args
        if len(args) != 1 or loop.iter.keywords:
            raise Unsupported("prange with start/step")
        self.count += 1
        name = f"__parfor_body_{self.count}__"
        v = _AssignedNames()
        for st in loop.body:
            v.visit(st)
        private = set(v.stored) | {loop.target.id}
        reductions = sorted(n for n in v.aug if n in assigned_before)
        private -= set(reductions)
        body = [_ContinueToReturn().visit(st) for st in loop.body]
        splitter = _SplitRMW(private)
        new_body = []
        for st in body:
            r = splitter.visit(st)
            new_body.extend(r if isinstance(r, list) else [r])
        pre = [ast.Nonlocal(names=reductions)] if reductions else []
        fn = ast.FunctionDef(
            name=name,
            args=ast.arguments(posonlyargs=[], args=[ast.arg(arg=loop.target.id)], kwonlyargs=[], kw_defaults=[], defaults=[]),
            body=pre + new_body, decorator_list=[], returns=None, type_params=[])
        call = ast.Expr(value=ast.Call(func=ast.Name(id="__sim_parfor__", ctx=ast.Load()),
                                       args=[args[0], ast.Name(id=name, ctx=ast.Load())], keywords=[]))
        return [ast.copy_location(fn, loop), ast.copy_location(call, loop)]


def build_sim_kernel(kernel, namespace, tag):
    """Return a Python callable made from ``kernel``'s current source with its prange loop outlined.
    Raises Unsupported if the construct is not understood."""
    pyf = getattr(kernel, "py_func", kernel)
    try:
        src = textwrap.dedent(inspect.getsource(pyf))
    except (OSError, TypeError) as e:
        raise Unsupported(f"no source: {e}")
    tree = ast.parse(src)
    fdef = tree.body[0]
    if not isinstance(fdef, ast.FunctionDef):
        raise Unsupported("not a function definition")
    fdef.decorator_list = []
    out = _Outliner(set())
    out.visit_FunctionDef(fdef)
    ast.fix_missing_locations(tree)
    n_loops = out.count
    code = compile(tree, f"{SIM_PREFIX}{tag}>", "exec")
    ns = dict(namespace)
    exec(code, ns)
    fn = ns[fdef.name]
    fn.__sim_parfor_loops__ = n_loops
    return fn


def sim_namespace(core_module):
    """Copy of speckit.core's namespace with every Numba dispatcher replaced by its interpreted py_func."""
    from numba.core.dispatcher import Dispatcher

    ns = {}
    for k, v in vars(core_module).items():
        if isinstance(v, Dispatcher):
            ns[k] = v.py_func
        else:
            ns[k] = v
    ns["np"] = _PoisonNumpy()
    ns["__sim_parfor__"] = sim_parfor
    ns["__sim_yield__"] = sim_yield
    ns["_prange"] = range
    ns["prange"] = range
    return ns
