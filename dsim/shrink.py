"""Candidate generators for greedy minimisation (worker.shrink drives them)."""
import copy


def drop_chunks(sc, key, min_len=0):
    """ddmin-style: yield copies of sc with chunks of sc[key] removed (big chunks first)."""
    lst = sc.get(key) or []
    n = len(lst)
    size = n // 2
    while size >= 1:
        i = 0
        while i < n:
            new = lst[:i] + lst[i + size:]
            if len(new) >= min_len and len(new) < n:
                c = copy.deepcopy(sc)
                c[key] = copy.deepcopy(new)
                yield c
            i += size
        size //= 2


def smaller_ints(v, floor=0):
    """Simpler integer values below v."""
    out = []
    for c in (floor, floor + 1, floor + 2, v // 2, v - 1):
        if floor <= c < v and c not in out:
            out.append(c)
    return out


def set_path(sc, path, value):
    c = copy.deepcopy(sc)
    o = c
    for p in path[:-1]:
        o = o[p]
    o[path[-1]] = value
    return c
