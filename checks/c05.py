"""C05 - a computed spectrum is the reference estimator applied to its own plan (thinnest simulation fit).

There is no thread, clock or injected fault in this property.  Its simulation content is the *request history* seen by
the per-call window / detrend-basis caches (plans generated adversarially through the documented ``scheduler=<callable>``
seam: alternating and recurring lengths, equal lengths at different frequencies, uniform / ragged segment counts),
band masks, interleaved single-bin calls on one analyzer - executed on the simulated and real backends.
Oracle: a cache-free longdouble reference estimator applied to the plan the result itself reports.
"""
import copy

import numpy as np

from dsim import rng as R
from dsim import scenario as SC
from dsim import shrink as S
from dsim import session as SS
from dsim import worlds as W
from dsim import clock as CK
from dsim import refmodel as RM

PROPERTY = "C05"
RULE = (
    "one scenario = record + configuration (four built-in schedulers or an adversarial custom plan; Hann / Kaiser(psll) / "
    "callable windows; orders; one world) + a seeded interleaving of compute(), a band-restricted second analyzer, "
    "compute_single_bin(f, L=|fres=) on one analyzer; this is request-history-vs-cache simulation, not thread/clock/fault "
    "simulation; non-trivial = plan with >=3 bins and >=2 distinct L of which one recurs non-adjacently, or a band that "
    "removes >=1 bin, or a single-bin call between two computes; distinct = scenario digest"
)
COMPONENTS = {
    "real": ["SpectrumAnalyzer.plan (band mask), compute / _lpsd_core (window cache, basis cache, dispatch, assembly), compute_single_bin",
             "kernels of the world's backend"],
    "simulated": ["request history against the per-call caches (custom scheduler seam)", "worker schedules in the sim worlds", "NumPy chunk knob", "time.perf_counter"],
    "stub": ["GPU hardware (Numba CUDASIM)"],
}
ASSUMPTIONS = [
    "reference window: np.hanning(L); Kaiser np.kaiser(L+1, alpha(psll)*pi)[:-1] with the documented cubic alpha; callables called afresh",
    "statistics compared within the C01 rounding budget; S12, S2 to 1e-12 relative; band restriction compared bitwise within one world and thread configuration",
]


def budget(tier):
    if tier == "thorough":
        return {"n": 200000, "wall_s": 1200, "workers": 16, "selftest": 24}
    return {"n": 2400, "wall_s": 70, "workers": 16, "selftest": 5}


def prime():
    W.prime_compiled()


def generate(seed, tier):
    rw = R.stream(seed, "workload")
    rf = R.stream(seed, "faults")
    world = rw.choice(["real-numba"] * 5 + ["numpy"] * 3 + ["sim-numba"] * 1 + ["sim-cuda"] * 1)
    sim = world.startswith("sim")
    N = rw.choice([16, 24, 33, 48, 64]) if sim else rw.choice([16, 33, 64, 100, 150, 200, 300, 400])
    channels = rw.choice([1, 2, 2])
    data = SC.gen_data_spec(rw, N, channels)
    cfg = SC.gen_config(rw, N, backends=(W.backend_of({"world": world}),), allow_custom=True, allow_band=False)
    cfg["layout"] = rw.choice(SC.LAYOUTS)      # how a two-channel record is handed over (2xN, its transposed view, a list of rows)
    if rw.random() < 0.5:
        cfg["scheduler"] = "custom"
        cfg["Lmin"] = 1
        cfg["custom_plan"] = SC.gen_custom_plan(rw, N, cfg["fs"], max_bins=6 if sim else 30, Lcap=40 if sim else None,
                                                sorted_f=rw.random() < 0.7)
    if sim:
        cfg["force_target_nf"] = False
        cfg["Jdes"] = min(cfg["Jdes"], 8)
    elif rw.random() < 0.04:
        N = rw.choice([1500, 3000])
        data = SC.gen_data_spec(rw, N, channels)
        SC.make_big_plan(rw, cfg)
    nops = rw.randrange(1, 5 if sim else 9)
    # an interfering analysis of the same record with another window shape / order (same lengths): process-wide state
    # that is keyed too coarsely (e.g. a window cache ignoring psll) is history dependence of the estimator
    other = dict(cfg, psll=rw.choice([p_ for p_ in (45, 70, 110, 160, 200) if p_ != cfg["psll"]]),
                 order=rw.choice([-1, 0, 1, 2]), band=None, force_target_nf=False)
    if rw.random() < 0.3:
        other["win"] = rw.choice(["hann", "kaiser", "bartlett"])
    if channels == 2 and rw.random() < 0.4:
        other = dict(cfg, band=None, force_target_nf=False, first_channel_only=True)     # same plan, auto mode, same process
    ops = [["other"], ["compute"]] if rw.random() < 0.35 else [["compute"]]
    for _ in range(nops):
        r = rw.random()
        if r < 0.08:
            ops.append(["other"])
        elif r < 0.13:
            ops.append(["refill", rw.randrange(2 ** 31), rw.choice(["noise", "randwalk", "sine+noise", "trend+noise"])])
        elif r < 0.2 and world == "numpy":
            # two independent callers at the same time: this analysis and an analysis of ANOTHER record, interleaved
            ops.append(["concurrent", rw.randrange(2 ** 31)])
        elif r < 0.25:
            ops.append(["compute"])
        elif r < 0.3:
            ops.append(["wrapper", rw.choice(["compute_spectrum", "lpsd", "compute_single_bin"]), round(rw.uniform(0, 0.5), 5), rw.randrange(1, (40 if sim else N) + 1)])
        elif r < 0.6:
            a, b = sorted([rw.randrange(0, 64), rw.randrange(0, 64)])
            ops.append(["band", rw.choice(["bins", "bins", "single", "between", "all"]), a, b, round(rw.random(), 4)])
        else:
            Lmax = min(N, 40 if sim else N)
            if rw.random() < 0.5:
                ops.append(["single", ["grid", rw.randrange(64)], ["planL", rw.randrange(64)]])
            else:
                ops.append(["single", ["free", rw.choice([0.0, 0.5, round(rw.uniform(0.5, 1.0), 5), round(rw.uniform(0.5, 1.0), 5)]) if rw.random() < 0.2
                                       else round(rw.uniform(0, 0.5), 5)], rw.choice([["L", rw.randrange(1, Lmax + 1)], ["fres", rw.randrange(1, Lmax + 1)],
                                                                                         ["fres", round(rw.uniform(1.0, Lmax), 3)]])])
    return {"world": W.gen_world(rf, world, 6), "data": data, "cfg": cfg, "other": other, "ops": ops,
            "clock": CK.gen_clock(R.stream(seed, "clock"), p_none=0.5)}


# --------------------------------------------------------------------------

def _check_against_reference(res, x, y, cfg, out, what, backend):
    f = np.asarray(res.f)
    Ls = np.asarray(res.L)
    D = res.D
    K = np.asarray(res.K)
    navg = np.asarray(res.navg)
    XX, YY, XY, M2 = np.asarray(res.XX), np.asarray(res.YY), np.asarray(res.XY), np.asarray(res.M2)
    S2, S12 = np.asarray(res.S2), np.asarray(res.S12)
    fs = cfg["fs"]
    nf = len(f)
    for nm, arr in (("L", Ls), ("K", K), ("navg", navg), ("XX", XX), ("YY", YY), ("XY", XY), ("M2", M2), ("S2", S2), ("S12", S12)):
        if len(arr) != nf:
            out.violate("field_misaligned", f"{what} field={nm}", f"len({nm})={len(arr)} but nf={nf}")
            return
    if len(D) != nf:
        out.violate("field_misaligned", f"{what} field=D", f"len(D)={len(D)} but nf={nf}")
        return
    for j in range(nf):
        L = int(Ls[j])
        starts = np.asarray(D[j], dtype=np.int64)
        if int(K[j]) != len(starts) or int(navg[j]) != len(starts):
            out.violate("segment_count", f"{what}", f"bin {j}: K={K[j]} navg={navg[j]} but the plan lists {len(starts)} segment starts")
            continue
        w = SC.reference_window(cfg["win"], cfg["psll"], L)
        omega = 2 * np.pi * float(f[j]) / fs
        ref, t2, t4, S = RM.ref_stats(x, y, starts, L, w, omega, cfg["order"])
        got = (float(XX[j]), float(YY[j]), XY[j].real, XY[j].imag, float(M2[j]))
        if y is None:
            ref = (ref[0], ref[0], ref[0], 0.0, ref[4])
        for nm, g, r, tol in zip(("XX", "YY", "XY_re", "XY_im", "M2"), got, ref, RM.ref_stats.last_tols):
            ratio = abs(g - r) / tol if g == g else float("inf")
            if ratio != float("inf") and ratio > out.extra.get("max_budget_ratio", 0.0):
                out.extra["max_budget_ratio"] = float(ratio)
            if not abs(g - r) <= tol:
                out.violate("bin_differs_from_reference_estimator", f"{what} backend={backend} field={nm}",
                            f"bin {j} of {nf} (f={f[j]:.6g}, L={L}, K={len(starts)}, win={cfg['win']}, order={cfg['order']}): got {g!r}, reference estimator on the reported plan gives {r!r} (budget {tol:.2e})")
                break
        s1 = float(np.sum(w))
        s2 = float(np.sum(w * w))
        if not abs(S12[j] - s1 * s1) <= 1e-12 * max(s1 * s1, 1e-300) + 1e-300:
            out.violate("window_sum", f"{what} field=S12", f"bin {j} L={L} win={cfg['win']}: S12={S12[j]!r}, (sum w)^2={s1 * s1!r}")
        if not abs(S2[j] - s2) <= 1e-12 * s2 + 1e-300:
            out.violate("window_sum", f"{what} field=S2", f"bin {j} L={L} win={cfg['win']}: S2={S2[j]!r}, sum w^2={s2!r}")
    out.count("oracle_r2_bins", nf)


def execute(sc, out):
    data = SC.make_record(sc["data"])
    cfg = sc["cfg"]
    world = sc["world"]["world"]
    backend = W.backend_of(sc["world"])
    if data.ndim == 2:
        x, y = np.array(data[0], copy=True), np.array(data[1], copy=True)
    else:
        x, y = np.array(data, copy=True), None
    clock = CK.SimClock(sc.get("clock"))
    sess = SS.WorldSession(sc["world"])
    buf = data              # the caller's buffer: analyzers may alias it; "refill" overwrites it in place
    with sess:
        try:
            with clock.installed():
                an = SC.build_analyzer(buf, cfg)
                p = an.plan()
                full_f = np.array(p["f"], copy=True)
                full_L = np.array(p["L"], copy=True)
        except Exception as e:
            out.discarded = "plan_failure"
            out.count("discarded_plan_failure")
            out.extra["discard_reason"] = f"{type(e).__name__}: {e}"[:200]
            return
        nf = len(full_f)
        # reach counters of the cache history
        seen = {}
        recur = False
        for j, L in enumerate(full_L):
            L = int(L)
            if L in seen and seen[L] < j - 1 and any(int(v) != L for v in full_L[seen[L] + 1:j]):
                recur = True
            seen[L] = j
        if recur:
            out.count("cache_hit_nonadjacent")
        if len(set(int(v) for v in full_L)) >= 3:
            out.count("cache_many_lengths")
        if nf >= 3 and len(seen) >= 2 and recur:
            out.nontrivial = True
        full_raw = None
        ncomp = 0
        prev = None
        for op in sc["ops"]:
            kind = op[0]
            out.sim_steps += 1
            try:
                with clock.installed():
                    if kind == "concurrent":
                        rec2 = SC.make_record(dict(sc["data"], rng=op[1], recipe="noise"))
                        an2 = SC.build_analyzer(rec2, dict(cfg, band=None))
                        an2.plan()
                        r1, r2 = W.run_concurrently(sess.ctx, [an.compute, an2.compute])
                        _check_against_reference(r1, x, y, cfg, out, "concurrent", backend)
                        x2, y2 = (rec2[0], rec2[1]) if rec2.ndim == 2 else (rec2, None)
                        _check_against_reference(r2, x2, y2, cfg, out, "concurrent", backend)
                        out.count("two_concurrent_callers")
                        out.nontrivial = True
                    elif kind == "wrapper":
                        import speckit as _sk

                        kwargs = SC.analyzer_kwargs(cfg)
                        if op[1] == "compute_single_bin":
                            fw = op[2] * cfg["fs"]
                            rw_ = _sk.compute_single_bin(buf, cfg["fs"], fw, L=min(op[3], len(x)), **kwargs)
                            _check_against_reference(rw_, x, y, cfg, out, "wrapper_single", backend)
                        else:
                            rw_ = getattr(_sk, op[1])(buf, cfg["fs"], **kwargs)
                            _check_against_reference(rw_, x, y, cfg, out, "wrapper_compute", backend)
                            if full_raw is not None:
                                d_ = SS.diff_fields(SS.raw_fields(rw_), full_raw, SS.RAW_CMP)
                                if d_ is not None:
                                    out.violate("wrapper_differs_from_analyzer", f"field={d_}", f"{op[1]}(data, fs, **kwargs) differs from SpectrumAnalyzer(...).compute() in {d_}")
                        out.count("module_level_wrapper")
                    elif kind == "refill":
                        newrec = SC.make_record(dict(sc["data"], rng=op[1], recipe=op[2]))
                        buf[...] = newrec
                        if buf.ndim == 2:
                            x, y = np.array(buf[0], copy=True), np.array(buf[1], copy=True)
                        else:
                            x, y = np.array(buf, copy=True), None
                        an = SC.build_analyzer(buf, cfg)
                        an.plan()
                        full_raw = None
                        out.count("buffer_refilled_in_place")
                    elif kind == "other":
                        try:
                            o_cfg = sc["other"]
                            o_data = np.array(buf[0], copy=True) if (o_cfg.get("first_channel_only") and buf.ndim == 2) else buf
                            SC.build_analyzer(o_data, o_cfg).compute()
                            out.count("other_analyzer_compute")
                        except Exception:
                            out.count("other_analyzer_failed")
                    elif kind == "compute":
                        r = an.compute()
                        ncomp += 1
                        _check_against_reference(r, x, y, cfg, out, "compute", backend)
                        full_raw = SS.raw_fields(r)
                        out.observe([full_raw[k] for k in SS.RAW_CMP])
                        if prev == "single" and ncomp >= 2:
                            out.count("single_bin_between_computes")
                            out.nontrivial = True
                    elif kind == "band":
                        if full_raw is None:
                            continue
                        _, style, a, b, t = op
                        a, b = a % nf, b % nf
                        a, b = min(a, b), max(a, b)
                        if style == "single":
                            lo = hi = float(full_f[a])
                        elif style == "between" and nf >= 2:
                            a = min(a, nf - 2)
                            lo = float(full_f[a] + t * (full_f[a + 1] - full_f[a]))
                            hi = float(full_f[b]) if b > a else float(full_f[a + 1])
                        elif style == "all":
                            lo, hi = 0.0, float(full_f[-1]) * 2 + 1.0
                        else:
                            lo, hi = float(full_f[a]), float(full_f[b])
                        mask = (full_f >= lo) & (full_f <= hi)
                        cfgb = dict(cfg)
                        cfgb["band"] = [lo, hi]
                        if not mask.any():
                            an_e = SC.build_analyzer(buf, cfgb)
                            outcomes = []
                            for _ in range(2):
                                try:
                                    outcomes.append(("ok", len(an_e.compute().f)))
                                except Exception as e_:
                                    outcomes.append(("raised", type(e_).__name__))
                            out.count("band_selecting_nothing")
                            if outcomes[0][0] == "raised" and outcomes[1][0] == "ok":
                                out.violate("band_not_inband_bins", "empty_band_retry", f"band [{lo:.6g},{hi:.6g}] contains no planned frequency: first compute() raised, the retry returned {outcomes[1][1]} bins")
                            continue
                        rb = SC.build_analyzer(buf, cfgb).compute()
                        rawb = SS.raw_fields(rb)
                        idx = np.nonzero(mask)[0]
                        for nm in SS.RAW_CMP:
                            exp = [full_raw[nm][i] for i in idx] if nm == "D" else full_raw[nm][idx]
                            got = list(rawb[nm]) if nm == "D" else rawb[nm]
                            if not SS.eq(got, exp if nm != "D" else list(exp)):
                                out.violate("band_not_inband_bins", f"field={nm}", f"band [{lo:.6g},{hi:.6g}] keeps bins {idx.tolist()[:8]} of {nf}: field {nm} differs from the unrestricted analysis' in-band values")
                                break
                        if mask.sum() < nf:
                            out.count("band_dropped_bins")
                            out.nontrivial = True
                        if mask.sum() == 1:
                            out.count("band_single_bin")
                        _check_against_reference(rb, x, y, cfg, out, "band", backend)
                    elif kind == "single":
                        _, fsel, lsel = op
                        f = float(full_f[fsel[1] % nf]) if fsel[0] == "grid" else float(fsel[1] * cfg["fs"])
                        if lsel[0] == "planL":
                            kw = {"L": int(full_L[lsel[1] % nf])}
                        elif lsel[0] == "L":
                            kw = {"L": int(min(lsel[1], len(x)))}
                        else:
                            kw = {"fres": cfg["fs"] / float(min(lsel[1], len(x)))}
                        sel = (fsel[1] if fsel[0] == "grid" else int(fsel[1] * 1e5)) % 5
                        if sel == 0:
                            f_req = np.float32(f)                 # a user passing a NumPy scalar of another width
                            f = float(f_req)
                            out.count("single_bin_freq_as_float32")
                        elif sel == 1:
                            f_req = np.float64(f)
                        else:
                            f_req = f
                        rs = an.compute_single_bin(f_req, **kw)
                        if len(rs.f) != 1 or float(rs.f[0]) != f:
                            out.violate("single_bin_frequency", "single", f"requested f={f!r}, result reports {np.asarray(rs.f)!r}")
                        if "L" in kw and int(rs.L[0]) != kw["L"]:
                            out.violate("single_bin_length", "single", f"requested L={kw['L']}, result reports {int(rs.L[0])}")
                        _check_against_reference(rs, x, y, cfg, out, "single", backend)
                        out.observe([SS.raw_fields(rs)[k] for k in SS.RAW_CMP])
                        out.count("single_bin")
            except Exception as e:
                from dsim.sched import HarnessError

                if isinstance(e, HarnessError):
                    raise
                out.violate("exception", f"op={kind}", f"{kind} raised {type(e).__name__}: {str(e)[:200]}")
            prev = kind
    sess.absorb(out)
    out.sim_time_s += clock.elapsed()
    out.count("world_" + world)
    out.summary = {"world": world, "nf": nf, "scheduler": cfg["scheduler"], "win": cfg["win"], "ops": [o[0] for o in sc["ops"]]}


def size(sc):
    return len(sc["ops"]) + len(sc["cfg"].get("custom_plan") or [])


def shrink_candidates(sc):
    yield from S.drop_chunks(sc, "ops", min_len=1)
    if sc["cfg"]["scheduler"] == "custom":
        n = len(sc["cfg"]["custom_plan"])
        size_ = n // 2
        while size_ >= 1:
            for i in range(0, n, size_):
                new = sc["cfg"]["custom_plan"][:i] + sc["cfg"]["custom_plan"][i + size_:]
                if new:
                    c = copy.deepcopy(sc); c["cfg"]["custom_plan"] = copy.deepcopy(new); yield c
            size_ //= 2
        for i, b in enumerate(sc["cfg"]["custom_plan"]):
            if len(b[2]) > 1:
                c = copy.deepcopy(sc); c["cfg"]["custom_plan"][i][2] = b[2][:1]; yield c
    if sc.get("clock"):
        c = copy.deepcopy(sc); c["clock"] = None; yield c
    if sc["world"]["world"].startswith("sim") and not sc["world"].get("serial"):
        c = copy.deepcopy(sc); c["world"]["serial"] = True; yield c
    for N in (16, 24, 33, 64):
        if N < sc["data"]["N"] and sc["cfg"]["scheduler"] != "custom":
            c = copy.deepcopy(sc); c["data"]["N"] = N
            c["cfg"]["Lmin"] = min(c["cfg"]["Lmin"], N // 2)
            yield c
    if sc["data"]["recipe"] != "noise":
        c = copy.deepcopy(sc); c["data"]["recipe"] = "noise"; yield c
    if sc["data"]["channels"] == 2:
        c = copy.deepcopy(sc); c["data"]["channels"] = 1; yield c
    for k, v in (("order", -1), ("win", "ones"), ("olap", 0.5)):
        if sc["cfg"].get(k) != v:
            c = copy.deepcopy(sc); c["cfg"][k] = v; yield c
