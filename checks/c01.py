"""C01 - per-bin statistics equal the windowed-DFT definition on every backend.

Simulated dimension: segment->worker distribution and statement-level interleaving of the Numba prange kernels
(source re-compiled with the loop body outlined), grid/block geometry, thread schedule and poisoned device memory of
the CUDA kernels (Numba's CPU simulator with our scheduler), chunk-size knob of the NumPy kernels, real thread
configurations of the compiled kernels.  Oracle: direct longdouble evaluation of the windowed DFT definition (R1).
"""
import copy

import numpy as np

from dsim import rng as R
from dsim import scenario as SC
from dsim import shrink as S
from dsim import refmodel as RM
from dsim import worlds as W

PROPERTY = "C01"
RULE = (
    "one scenario = one (record(s), L, start vector, window, omega, detrend order, auto/cross) case executed in four "
    "worlds (sim-numba: simulated prange workers; sim-cuda: simulated GPU grid; numpy with chunk knob; real compiled "
    "numba with seeded threads/chunksize), half called at the backend statistic functions, half through "
    "SpectrumAnalyzer(backend=...) with a one-or-more-bin custom plan; non-trivial = K>=2 segments and at least one "
    "simulated world ran >=2 workers/GPU threads with a pre-emption inside a loop body; distinct = scenario digest"
)
COMPONENTS = {
    "real": ["source of the six Numba kernels and helpers (interpreted, prange body outlined)", "compiled Numba kernels (real threads)",
             "six NumPy kernels", "source of the six CUDA kernels and host wrappers", "speckit.analysis dispatch (analyzer path)", "_build_Q"],
    "simulated": ["prange work distribution and interleaving (baton scheduler)", "GPU thread/block scheduler, launch geometry, device memory (NaN-poisoned)",
                  "NumPy chunk size knob", "np.empty poisoning"],
    "stub": ["GPU hardware / PTX code generation (Numba CUDASIM executes the kernel source on the CPU)"],
}
ASSUMPTIONS = [
    "rounding budget per statistic from per-segment amplitude budgets A_k = 16 eps G sum|w||x-trend| + 16 eps max(L,8) max|x_seg| sum|w|, G = Lb/max(|sin w|,1/Lb) (dsim/refmodel.py), >= 50x above the worst error observed on the unchanged tree",
    "the simulated prange models Numba parfor semantics (shared outer arrays, private body locals, atomic scalar reductions); LLVM-level races are out of reach",
    "longdouble direct DFT with Gram-Schmidt LS trend is the trusted reference",
]

WORLD_KINDS = ["sim-numba", "sim-cuda", "numpy", "real-numba"]


def budget(tier):
    if tier == "thorough":
        return {"n": 400000, "wall_s": 1200, "workers": 16, "selftest": 32}
    return {"n": 4000, "wall_s": 75, "workers": 16, "selftest": 5}


def prime():
    W.prime_compiled()


# --------------------------------------------------------------------------

def _gen_omega(rw, L):
    r = rw.random()
    if L >= 8 and rw.random() < 0.08:
        # a fractional bin that is *almost* an integer bin (relative distance 1e-6 ... 1e-4 of the bin number)
        k = rw.randrange(1, L // 2 + 1)
        b = k * (1.0 + rw.choice([-1, 1]) * rw.choice([2e-6, 6e-6, 9e-6, 3e-5, 1e-4]))
        return min(float(np.pi), 2 * np.pi * b / L)
    if L >= 16 and rw.random() < 0.08:
        return 2 * np.pi * rw.uniform(0.3, 4.0) / L      # the lowest bins (where offsets and trends leak most)
    if r < 0.08:
        return 0.0
    if r < 0.16:
        return float(np.pi)
    if r < 0.36:
        return 2 * np.pi * rw.randrange(0, L // 2 + 1) / L       # integer bin
    if r < 0.56:
        return 2 * np.pi * (rw.randrange(0, max(1, L // 2)) + rw.random()) / L  # fractional bin
    if r < 0.62:
        return 1e-9
    if r < 0.68:
        return float(np.pi - 1e-9)
    return rw.uniform(0.0, float(np.pi))


def _gen_starts(rw, N, L, K):
    span = N - L
    r = rw.random()
    if span == 0:
        return [0] * K
    if K >= 3 and span >= 2 * (K - 1) and rw.random() < 0.12:
        # "looks evenly spaced": first hop h and last - first == h*(K-1), but the interior is irregular
        h = rw.randrange(1, span // (K - 1) + 1)
        s0 = rw.randrange(0, span - h * (K - 1) + 1)
        inner = [rw.randrange(s0, s0 + h * (K - 1) + 1) for _ in range(K - 3)]
        if rw.random() < 0.6:
            inner.sort()
        return [s0, s0 + h] + inner + [s0 + h * (K - 1)]
    if r < 0.4:
        return sorted(rw.randrange(0, span + 1) for _ in range(K))
    if r < 0.6:
        return [rw.randrange(0, span + 1) for _ in range(K)]
    if r < 0.7:
        return [rw.randrange(0, span + 1)] * K
    if r < 0.8:
        return [0] + [span] * (K - 1)
    if r < 0.9:
        return [span] * K
    return [int(round(i * span / max(K - 1, 1))) for i in range(K)]


def generate(seed, tier):
    rw = R.stream(seed, "workload")
    rf = R.stream(seed, "faults")
    big = rw.random() < 0.2
    huge_k = big and rw.random() < 0.15
    mode = rw.choice(["auto", "csd", "csd"])
    order = rw.choice([-1, 0, 1, 2])
    if huge_k:
        L = rw.randrange(1, 6)
        K = rw.choice([8193, 9000, 16385, 32769, 33000])
        N = L + rw.randrange(K // 2, K * 2)
    elif big:
        L = rw.choice([1, 2, 3, 64, 256, 1024, 2048, rw.randrange(1, 2049)])
        K = rw.choice([1, 2, 3, 17, 100, 300])
        N = L + rw.randrange(0, 3000)
    else:
        L = rw.choice([1, 1, 2, 3, 4, 5, 8, 16, 31, 32, 64, 96, rw.randrange(1, 97)])
        K = rw.choice([1, 2, 2, 3, 3, 4, 5, 6, 8, 12])
        N = L + rw.choice([0, 0, 1, 5, rw.randrange(0, 200)])
    giant = big and (not huge_k) and rw.random() < 0.04
    if giant:       # one or two segments longer than 2**18 samples
        L = rw.choice([262145, 300001, 400000])
        K = rw.choice([1, 2])
        N = L + rw.randrange(0, 1000)
    gpu_long = (not big) and rw.random() < 0.02
    if gpu_long:        # long segments on the simulated GPU (error growth along the segment), few of them
        L = rw.choice([256, 512, 1024])
        K = rw.choice([1, 2])
        N = L + rw.randrange(0, 64)
        order = rw.choice([1, 2, 2])
    gpu_wide = (not big) and (not gpu_long) and rw.random() < 0.02
    if gpu_wide:        # a grid wider than one default block: K > 128 / > 256 with the shipped THREADS_PER_BLOCK
        L = rw.randrange(1, 6)
        K = rw.choice([129, 200, 257, 300, 513])
        N = L + rw.randrange(K // 4, K)
    starts = _gen_starts(rw, N, L, K) if not huge_k else [rw.randrange(0, N - L + 1) for _ in range(K)]
    data = SC.gen_data_spec(rw, N, 2 if mode == "csd" else 1)
    stress = big and not huge_k and not giant and rw.random() < 0.3
    if stress:
        # precision stress: long segments, a constant offset 1e5 ... 1e8 times the fluctuation, the lowest bins
        L = rw.choice([512, 1024, 2048, 4096, 8192])
        K = rw.choice([1, 2, 5])
        N = L + rw.randrange(0, 500)
        starts = _gen_starts(rw, N, L, K)
        order = rw.choice([0, 0, 1, 2])
        data = SC.gen_data_spec(rw, N, 2 if mode == "csd" else 1)
        data.update({"recipe": "noise", "scale": rw.choice([1e-3, 1e-2, 1.0]), "offset": rw.choice([1e3, 1e5, -1e5])})
    via = rw.choice(["kernel", "analyzer"]) if not huge_k else "kernel"
    win = rw.choice(["hann", "ones", "bartlett", "signed", "ramp", "gated", "kaiser"] if via == "kernel" else ["hann", "ones", "bartlett", "signed", "ramp", "gated"])
    kinds = ["numpy", "real-numba"] if big else list(WORLD_KINDS)
    sc = {
        "mode": mode, "order": order, "L": L, "N": N, "starts": starts, "win": win, "psll": rw.choice([60, 120, 200]),
        "omega": (2 * np.pi * rw.uniform(0.3, 3.0) / L) if stress else _gen_omega(rw, L), "data": data, "via": via, "fs": rw.choice([1.0, 2.0, 100.0]),
        "worlds": [W.gen_world(rf, k, K, heavy=True) for k in kinds],
    }
    if gpu_long:
        sc["worlds"] = [ws for ws in sc["worlds"] if ws["world"] in ("sim-cuda", "numpy")]
        sc["data"]["recipe"] = rw.choice(["offset+noise", "trend+noise", "randwalk"])
        sc["via"] = "kernel"
        for ws in sc["worlds"]:
            if ws["world"] == "sim-cuda":
                ws["tpb"] = 2
                ws["policy"] = "serial_perm"
    if gpu_wide:
        sc["worlds"] = [ws for ws in sc["worlds"] if ws["world"] in ("sim-cuda", "numpy")]
        for ws in sc["worlds"]:
            if ws["world"] == "sim-cuda":
                ws["tpb"] = None        # the shipped block size
                ws["policy"] = "serial_perm"
    if huge_k:
        for ws in sc["worlds"]:
            if ws["world"] == "numpy":
                ws["chunk"] = None      # the shipped default chunk is really crossed
    # further stages: the same caller-owned buffers refilled in place with other records (caches keyed by buffer identity)
    if not huge_k and rw.random() < 0.35:
        sc["refills"] = [dict(data, rng=rw.randrange(2 ** 31), recipe=rw.choice(["noise", "sine+noise", "randwalk", "trend+noise"]))
                         for _ in range(rw.randrange(1, 3))]
    if mode == "csd" and rw.random() < 0.3:
        sc["rows_of_recording"] = rw.randrange(1, 2 ** 31)
    elif mode == "csd" and rw.random() < 0.15:
        sc["overlapping_views"] = rw.choice([1, 1, 2, 7])     # the two channels are overlapping windows of ONE buffer (y = buf[d:], x = buf[:-d])
    if giant:
        sc["via"] = "kernel"
        sc.pop("refills", None)
        sc["data"]["recipe"] = rw.choice(["noise", "offset+noise", "randwalk"])
    if rw.random() < 0.2:
        sc["concurrent_kernel"] = rw.randrange(1, 2 ** 31)     # NumPy world: another caller's kernel call interleaved with this one
    if rw.random() < 0.15:
        sc["alloc_fault"] = rw.choice([1, 1, 2])        # NumPy world: an injected MemoryError in the segment gather of a first call
    # history inside one process: the same (L, omega) first analysed in auto mode, then in cross mode
    if mode == "csd" and rw.random() < 0.4:
        sc["auto_first"] = True
    if via == "analyzer":
        # extra bins before/after so that the bin of interest is not the only one (dispatch alignment)
        nb = rw.randrange(0, 3)
        extra = []
        for _ in range(nb):
            L2 = rw.randrange(1, min(N, 64) + 1)
            extra.append([rw.random(), L2, _gen_starts(rw, N, L2, rw.randrange(1, 5))])
        sc["extra_bins"] = extra
        sc["pos"] = rw.randrange(0, nb + 1)
        if rw.random() < 0.3:
            sc["b_offset"] = rw.choice([0.25, -0.4, 3.0])     # the plan's reported bin number is informational only
    return sc


# --------------------------------------------------------------------------

def _window(sc):
    return SC.reference_window(sc["win"], sc["psll"], sc["L"])


def _via_analyzer(sc, ws, x, y, out):
    """Run the case through SpectrumAnalyzer in world ws; returns 5-tuple of the bin of interest."""
    fs = sc["fs"]
    f0 = sc["omega"] * fs / (2 * np.pi)
    extra = [[0.0, b[1], b[2]] for b in sc.get("extra_bins", [])]
    pos = min(sc.get("pos", 0), len(extra))
    step = 1e-3 * fs
    if f0 - pos * step < 0:
        pos = 0
    bins = extra[:pos] + [[f0, sc["L"], sc["starts"]]] + extra[pos:]
    for i, b in enumerate(bins):
        if i != pos:
            b[0] = f0 + (i - pos) * step
    cfg = {"fs": fs, "olap": 0.5, "bmin": 1.0, "Lmin": 1, "Jdes": 5, "Kdes": 2, "order": sc["order"], "win": sc["win"],
           "psll": sc["psll"], "scheduler": "custom", "custom_plan": bins, "num_patch_pts": None, "band": None,
           "force_target_nf": False, "backend": W.backend_of(ws)}
    if sc.get("b_offset"):
        cfg["custom_b_offset"] = sc["b_offset"]
    data = x if y is None else np.vstack([x, y])
    if y is not None and getattr(x, "base", None) is not None and x.base is getattr(y, "base", None) and x.base.ndim == 2:
        data = x.base[2:4]          # a contiguous row-slice view of the larger recording
    with W.analysis_world(ws) as ctx:
        an = SC.build_analyzer(data, cfg)
        res = an.compute()
    W.absorb(out, ctx)
    XY = complex(res.XY[pos])
    return (float(res.XX[pos]), float(res.YY[pos]), XY.real, XY.imag, float(res.M2[pos])), ctx


def execute(sc, out):
    specs = [sc["data"]] + list(sc.get("refills", []))
    if sc["mode"] == "csd" and sc.get("rows_of_recording"):
        # the two channels are rows 2 and 3 of a larger recording whose other rows hold something else
        big = np.random.default_rng(sc["rows_of_recording"]).normal(size=(4, sc["N"])) * 7.0
        bufx, bufy = big[2], big[3]
        out.count("channels_are_rows_of_a_larger_recording")
    elif sc["mode"] == "csd" and sc.get("overlapping_views"):
        # a record and its delayed self taken as two windows of one buffer: the channels share memory without being equal
        dd = int(sc["overlapping_views"])
        one = np.zeros(sc["N"] + dd, dtype=np.float64)
        bufx, bufy = one[:sc["N"]], one[dd:dd + sc["N"]]
        out.count("channels_are_overlapping_views_of_one_buffer")
    else:
        bufx = np.empty(sc["N"], dtype=np.float64)
        bufy = np.empty(sc["N"], dtype=np.float64) if sc["mode"] == "csd" else None
    for si, spec in enumerate(specs):
        rec = SC.make_record(spec)
        if sc["mode"] == "csd":
            bufx[:] = rec[0]
            bufy[:] = rec[1]
        else:
            bufx[:] = rec
        if si:
            out.count("buffer_refilled_in_place")
        _execute_stage(sc, out, bufx, bufy, si)


def _execute_stage(sc, out, x, y, stage):
    L = sc["L"]
    starts = np.array(sc["starts"], dtype=np.int64)
    K = len(starts)
    w = _window(sc)
    omega = sc["omega"]
    ref, tol2, tol4, Ssum = RM.ref_stats(x, y, starts, L, w, omega, sc["order"])
    names = ["MXX", "MYY", "mu_r", "mu_i", "M2"]
    tols = list(RM.ref_stats.last_tols)      # per-statistic rounding budgets (MXX, MYY, mu_r, mu_i, M2)
    got = {}
    sim_nontrivial = False
    for ws in sc["worlds"]:
        world = ws["world"]
        site_w = {"sim-numba": "numba", "real-numba": "numba", "numpy": "numpy", "sim-cuda": "cuda"}[world]
        if world == "numpy" and sc.get("alloc_fault") and sc["via"] == "kernel":
            x0 = x.copy()
            y0 = None if y is None else y.copy()
            with W.AllocFault() as af:
                af.arm(sc["alloc_fault"])
                try:
                    rf_, _ = W.run_kernel(ws, sc["mode"], sc["order"], x, y, starts, L, w, omega)
                    out.count("alloc_fault_survived_by_library")
                    for nm, g_, r_, tol in zip(names, rf_, ref, tols):
                        if af.fired and not (abs(g_ - r_) <= tol):
                            out.violate("stat_differs_from_definition:after_alloc_fault", f"backend=numpy mode={sc['mode']} order={sc['order']} stat={nm}",
                                        f"stage {stage}: a call that met an injected MemoryError returned {g_!r}, definition gives {r_!r}")
                            break
                except MemoryError:
                    out.count("alloc_fault_fired_and_propagated")
            if not np.array_equal(x, x0) or (y is not None and not np.array_equal(y, y0)):
                out.violate("record_modified", f"backend=numpy order={sc['order']}", f"stage {stage}: the caller's record changed during a call that met an injected MemoryError")
                x[:] = x0
                if y is not None:
                    y[:] = y0
        try:
            if sc.get("auto_first") and y is not None:
                # auto-spectral call with the same (starts, L, window, omega) first; its own result is checked too
                if sc["via"] == "analyzer":
                    ra, _ = _via_analyzer(dict(sc, mode="auto"), ws, x, None, out)
                else:
                    ra, _ = W.run_kernel(dict(ws, serial=True), "auto", sc["order"], x, None, starts, L, w, omega)
                out.count("auto_call_before_cross_call")
                ref_a, _, _, _ = RM.ref_stats(x, None, starts, L, w, omega, sc["order"])
                if not abs(ra[0] - ref_a[0]) <= RM.ref_stats.last_tols[0]:
                    out.violate("stat_differs_from_definition:value", f"backend={site_w} mode=auto order={sc['order']} stat=MXX",
                                f"stage {stage} world={world} (auto call preceding the cross call) L={L} K={K}: got {ra[0]!r}, definition gives {ref_a[0]!r}")
            if sc["via"] == "analyzer":
                res, ctx = _via_analyzer(sc, ws, x, y, out)
            elif world == "numpy" and sc.get("concurrent_kernel") and L * K <= 200000:
                # two independent callers of the NumPy kernels at the same time (simulated threads, line-level pre-emption)
                g_ = np.random.default_rng(sc["concurrent_kernel"])
                dx = g_.normal(size=len(x)) * 50.0
                dy = None if y is None else g_.normal(size=len(x)) * 50.0
                cctx = W.make_ctx(ws)
                res, _other = W.run_concurrently(cctx, [
                    lambda: W.run_kernel(ws, sc["mode"], sc["order"], x, y, starts, L, w, omega)[0],
                    lambda: W.run_kernel(ws, sc["mode"], sc["order"], dx, dy, starts, L, w, omega)[0]])
                W.absorb(out, cctx)
                ctx = None
                out.count("two_concurrent_callers")
            else:
                res, ctx = W.run_kernel(ws, sc["mode"], sc["order"], x, y, starts, L, w, omega)
                W.absorb(out, ctx)
        except Exception as e:
            from dsim.sched import HarnessError

            if isinstance(e, HarnessError):
                raise
            out.violate("exception", f"backend={site_w} mode={sc['mode']} order={sc['order']}",
                        f"world={world} via={sc['via']} L={L} K={K}: {type(e).__name__}: {str(e)[:200]}")
            continue
        got[world] = res
        out.count("world_" + world)
        if world == "numpy" and ws.get("chunk") is not None and K > ws["chunk"]:
            out.count("np_chunk_boundary")
        if world == "numpy" and ws.get("chunk") is None and K > 8192:
            out.count("np_default_chunk_crossed")
        if world == "sim-cuda":
            tpb = ws.get("tpb") or 256
            if K % tpb:
                out.count("gpu_partial_block")
            if ws.get("tpb") is None and K > 128:
                out.count("gpu_wide_grid_default_block")
        if world == "real-numba":
            out.count("real_threads_%d" % ws["threads"])
        if ctx is not None and ctx.stats.preempt_in_body and K >= 2:
            sim_nontrivial = True
        out.observe(world, list(res))
        for nm, g, r, tol in zip(names, res, ref, tols):
            ratio = abs(g - r) / tol if g == g else float("inf")
            if ratio > out.extra.get("max_budget_ratio", 0.0) and ratio != float("inf"):
                out.extra["max_budget_ratio"] = float(ratio)
            if not (abs(g - r) <= tol):     # also catches NaN (poison reached the reduction)
                kind = "nan" if g != g else "value"
                if g != g:
                    out.count("poison_read")
                out.violate(f"stat_differs_from_definition:{kind}", f"backend={site_w} mode={sc['mode']} order={sc['order']} stat={nm}",
                            f"stage {stage} world={world} via={sc['via']} L={L} K={K} omega={omega!r}: got {g!r}, definition gives {r!r}, budget {tol:.3e}")
    # sign of Im mu across worlds
    if sc["mode"] == "csd" and abs(ref[3]) > 100 * tol2:
        for world, res in got.items():
            if res[3] == res[3] and res[3] * ref[3] < 0:
                site_w = {"sim-numba": "numba", "real-numba": "numba", "numpy": "numpy", "sim-cuda": "cuda"}[world]
                out.violate("cross_spectrum_sign", f"backend={site_w}", f"Im mean X conj(Y): {res[3]!r} vs definition {ref[3]!r} (world {world})")
    out.nontrivial = bool(out.nontrivial or sim_nontrivial)
    out.sim_time_s += 0.0
    out.summary = {"mode": sc["mode"], "order": sc["order"], "L": L, "K": K, "via": sc["via"], "worlds": [w_["world"] for w_ in sc["worlds"]]}


# --------------------------------------------------------------------------

def size(sc):
    return sc["L"] + len(sc["starts"]) + sc["N"] + 10 * len(sc["worlds"])


def shrink_candidates(sc):
    for i in range(len(sc.get("refills", []))):
        c = copy.deepcopy(sc); del c["refills"][i]; yield c
    # fewer worlds
    if len(sc["worlds"]) > 1:
        for i in range(len(sc["worlds"])):
            c = copy.deepcopy(sc)
            del c["worlds"][i]
            yield c
    for ws_i, ws in enumerate(sc["worlds"]):
        if ws["world"] in ("sim-numba", "sim-cuda") and not ws.get("serial"):
            c = copy.deepcopy(sc)
            c["worlds"][ws_i]["serial"] = True
            yield c
    if sc["via"] == "analyzer":
        c = copy.deepcopy(sc)
        c["via"] = "kernel"
        c.pop("extra_bins", None)
        yield c
        if sc.get("extra_bins"):
            c = copy.deepcopy(sc)
            c["extra_bins"] = []
            c["pos"] = 0
            yield c
    # fewer segments
    yield from S.drop_chunks(sc, "starts", min_len=1)
    # shorter segments / record
    for L in S.smaller_ints(sc["L"], 1):
        c = copy.deepcopy(sc)
        c["L"] = L
        yield c
    minN = sc["L"] + max(sc["starts"])
    if minN < sc["N"]:
        c = copy.deepcopy(sc)
        c["N"] = minN
        c["data"]["N"] = minN
        for r_ in c.get("refills", []):
            r_["N"] = minN
        yield c
    if any(s > 0 for s in sc["starts"]):
        c = copy.deepcopy(sc)
        c["starts"] = [0] * len(sc["starts"])
        yield c
    if sc["data"]["recipe"] != "noise":
        c = copy.deepcopy(sc)
        c["data"]["recipe"] = "noise"
        yield c
    for k, v in (("scale", 1.0), ("offset", 0.0)):
        if sc["data"][k] != v:
            c = copy.deepcopy(sc)
            c["data"][k] = v
            yield c
    if sc["win"] != "ones":
        c = copy.deepcopy(sc)
        c["win"] = "ones"
        yield c
    if sc["order"] != -1:
        c = copy.deepcopy(sc)
        c["order"] = -1
        yield c
