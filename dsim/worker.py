"""Worker side: generate + execute scenarios of one property, replay, shrink.

Run only through /verif/dsim_worker_main.py (never with ``python -m``), so no
module is loaded twice.
"""
import copy
import faulthandler
import hashlib
import importlib
import json
import os
import sys
import time
import traceback

from . import rng

SCENARIO_WATCHDOG_S = 1200


def canon(obj) -> str:
    return json.dumps(obj, sort_keys=True, separators=(",", ":"), default=_json_default)


def _json_default(o):
    import numpy as np

    if isinstance(o, (np.integer,)):
        return int(o)
    if isinstance(o, (np.floating,)):
        return float(o)
    if isinstance(o, np.ndarray):
        return o.tolist()
    if isinstance(o, (set, frozenset)):
        return sorted(o)
    if isinstance(o, complex):
        return [o.real, o.imag]
    raise TypeError(f"not JSON serialisable: {type(o)}")


def sha(s: str) -> str:
    return hashlib.sha256(s.encode()).hexdigest()[:24]


def load_check(prop: str):
    return importlib.import_module("checks." + prop.lower())


class Outcome:
    """What executing one scenario produced."""

    def __init__(self):
        self.violations = []  # list of dict(cls, site, detail)
        self.counters = {}
        self.nontrivial = False
        self.discarded = None
        self.obs = hashlib.sha256()  # digest of everything observed (results, schedule)
        self.sim_steps = 0
        self.sim_handovers = 0
        self.sim_time_s = 0.0
        self.summary = None
        self.extra = {}

    # -- helpers used by checks -------------------------------------------
    def count(self, name, n=1):
        self.counters[name] = self.counters.get(name, 0) + n

    def violate(self, cls, site, detail):
        self.violations.append({"cls": str(cls), "site": str(site), "detail": str(detail)[:600]})

    def observe(self, *things):
        import numpy as np

        for t in things:
            if isinstance(t, np.ndarray):
                if t.dtype == object:
                    for e in t:
                        self.observe(e)
                else:
                    self.obs.update(str(t.dtype).encode())
                    self.obs.update(str(t.shape).encode())
                    self.obs.update(np.ascontiguousarray(t).tobytes())
            elif isinstance(t, (list, tuple)):
                for e in t:
                    self.observe(e)
            elif isinstance(t, float):
                self.obs.update(float(t).hex().encode())
            else:
                self.obs.update(repr(t).encode())
            self.obs.update(b"|")

    def to_json(self):
        return {
            "violations": self.violations,
            "counters": self.counters,
            "nontrivial": bool(self.nontrivial),
            "discarded": self.discarded,
            "obs_digest": self.obs.hexdigest()[:24],
            "sim_steps": int(self.sim_steps),
            "sim_handovers": int(self.sim_handovers),
            "sim_time_s": float(self.sim_time_s),
            "summary": self.summary,
            "extra": self.extra,
        }


def make_scenario(mod, prop, verif_seed, index, tier):
    seed = rng.scenario_seed(verif_seed, prop, index)
    sc = mod.generate(seed, tier)
    sc["property"] = prop
    sc["verif_seed"] = verif_seed
    sc["index"] = index
    sc["seed"] = seed
    return sc


def _raised_inside_library(exc) -> str:
    """Name of the library function an escaping exception was raised in, or '' if it was raised by harness code."""
    repo = os.path.realpath(os.environ.get("VERIF_REPO", "/repo"))
    tb = exc.__traceback__
    last = None
    while tb is not None:
        last = tb
        tb = tb.tb_next
    if last is None:
        return ""
    fn = os.path.realpath(last.tb_frame.f_code.co_filename)
    if fn.startswith(os.path.join(repo, "speckit") + os.sep):
        return f"{os.path.basename(fn)}:{last.tb_frame.f_code.co_name}"
    return ""


def run_scenario(mod, sc):
    out = Outcome()
    try:
        mod.execute(sc, out)
    except (Exception, SystemExit) as e:  # noqa: BLE001  (the library calls sys.exit() on one error path)
        # An exception that a check's oracle did not anticipate: if it was raised by the library itself (innermost
        # frame inside speckit/) on a call the scenario makes, that is the library failing, not the harness.
        where = _raised_inside_library(e)
        if not where or type(e).__name__ in ("HarnessError", "SimDeadlock"):
            raise
        out.violate("exception", f"unhandled:{where}", f"{type(e).__name__}: {str(e)[:200]}")
    return out


def case_digest(sc) -> str:
    d = {k: v for k, v in sc.items() if k not in ("violation", "minimised", "note", "schedule_trace")}
    return sha(canon(d))


def explore(args):
    prop = args["property"]
    mod = load_check(prop)
    tier = args["tier"]
    verif_seed = int(args["verif_seed"])
    deadline = time.monotonic() + float(args["wall_s"])  # budget clock, outside scenarios
    indices = args.get("indices")
    if indices is None:
        indices = range(int(args["start"]), int(args["max_index"]), int(args["stride"]))
    max_viol = int(args.get("max_violations", 4))
    known = [list(k) for k in args.get("known", [])]
    nviol = 0
    with open(args["out"], "w") as fo:
        for index in indices:
            if time.monotonic() > deadline:
                break
            faulthandler.dump_traceback_later(SCENARIO_WATCHDOG_S, exit=True)
            rec = {"index": index, "variant": int(args.get("variant", 0))}
            try:
                sc = make_scenario(mod, prop, verif_seed, index, tier)
                rec["seed"] = sc["seed"]
                rec["case_digest"] = case_digest(sc)
                t0 = time.monotonic()
                out = run_scenario(mod, sc)
                rec["wall"] = round(time.monotonic() - t0, 4)
                rec.update(out.to_json())
                if not out.violations:
                    rec["extra"].pop("schedule_trace", None)
                if out.violations:
                    rec["scenario"] = sc
                    # recorded (known) findings must not use up the worker's violation budget
                    if any([v["cls"], v["site"]] not in known and [v["cls"], "*"] not in known for v in out.violations):
                        nviol += 1
                elif args.get("keep_scenarios") or index < int(args.get("sample_below", 0)):
                    rec["scenario"] = sc
            except Exception:
                rec["harness_error"] = traceback.format_exc()
            finally:
                faulthandler.cancel_dump_traceback_later()
            fo.write(canon(rec) + "\n")
            fo.flush()
            if "harness_error" in rec or nviol >= max_viol:
                break
        fo.write(canon({"done": True}) + "\n")


def replay(args):
    """Execute one stored scenario; print the outcome as JSON."""
    with open(args["file"]) as f:
        sc = json.load(f)
    mod = load_check(sc["property"])
    faulthandler.dump_traceback_later(SCENARIO_WATCHDOG_S, exit=True)
    out = run_scenario(mod, sc)
    faulthandler.cancel_dump_traceback_later()
    res = out.to_json()
    res["case_digest"] = case_digest(sc)
    with open(args["out"], "w") as fo:
        fo.write(canon(res))


def _sig_in(out, sig):
    for v in out.violations:
        if (v["cls"], v["site"]) == tuple(sig):
            return v
    return None


def shrink(args):
    """Greedy minimisation while the same (class, site) persists (DESIGN 2.7)."""
    with open(args["file"]) as f:
        sc = json.load(f)
    sig = tuple(args["sig"])
    mod = load_check(sc["property"])
    budget = time.monotonic() + float(args.get("wall_s", 60))
    tried = accepted = 0
    cur = sc
    out0 = run_scenario(mod, cur)
    v0 = _sig_in(out0, sig)
    if v0 is None:
        res = {"reproduced": False}
    else:
        cand_fn = getattr(mod, "shrink_candidates", None)
        progress = cand_fn is not None
        while progress and time.monotonic() < budget:
            progress = False
            for cand in cand_fn(copy.deepcopy(cur)):
                if time.monotonic() > budget:
                    break
                tried += 1
                try:
                    faulthandler.dump_traceback_later(SCENARIO_WATCHDOG_S, exit=True)
                    o = run_scenario(mod, cand)
                except Exception:
                    continue
                finally:
                    faulthandler.cancel_dump_traceback_later()
                v = _sig_in(o, sig)
                if v is not None:
                    cur = cand
                    v0 = v
                    accepted += 1
                    progress = True
                    break
        cur = dict(cur)
        cur["violation"] = v0
        try:   # informational: the first schedule decisions of the minimised scenario (replay re-derives them from the sub-seeds)
            o = run_scenario(mod, {k: v for k, v in cur.items() if k not in ("violation", "schedule_trace")})
            tr = o.extra.get("schedule_trace")
            if tr:
                cur["schedule_trace"] = {"format": "[simulated run no, policy, worker/thread index, quantum in line events]", "first_decisions": tr}
        except Exception:
            pass
        cur["minimised"] = {
            "candidates_tried": tried,
            "accepted": accepted,
            "size_before": getattr(mod, "size", lambda s: len(canon(s)))(sc),
            "size_after": getattr(mod, "size", lambda s: len(canon(s)))(cur),
        }
        res = {"reproduced": True, "tried": tried, "accepted": accepted}
    with open(args["out"], "w") as fo:
        json.dump(cur, fo, indent=1, sort_keys=True, default=_json_default)
    with open(args["out"] + ".status", "w") as fo:
        json.dump(res, fo)


def prime(args):
    """Compile / load every JIT kernel once so that all workers only load the cache."""
    mod = load_check(args["property"])
    fn = getattr(mod, "prime", None)
    if fn:
        fn()


def corpus(args):
    """Replay committed regression scenarios (earlier findings, seeded-change witnesses)."""
    with open(args["out"], "w") as fo:
        for path in args["files"]:
            rec = {"file": path, "index": "corpus:" + os.path.basename(path)}
            try:
                with open(path) as f:
                    sc = json.load(f)
                sc.pop("violation", None)
                sc.pop("minimised", None)
                mod = load_check(sc["property"])
                faulthandler.dump_traceback_later(SCENARIO_WATCHDOG_S, exit=True)
                out = run_scenario(mod, sc)
                rec.update(out.to_json())
                rec["seed"] = sc.get("seed", 0)
                rec["case_digest"] = case_digest(sc)
                if out.violations:
                    rec["scenario"] = sc
            except Exception:
                rec["harness_error"] = traceback.format_exc()
            finally:
                faulthandler.cancel_dump_traceback_later()
            fo.write(canon(rec) + "\n")
        fo.write(canon({"done": True}) + "\n")


def dump(args):
    """Write the generated scenarios of the given indices to files (no execution)."""
    prop = args["property"]
    mod = load_check(prop)
    os.makedirs(args["dir"], exist_ok=True)
    for index in args["indices"]:
        sc = make_scenario(mod, prop, int(args["verif_seed"]), int(index), args["tier"])
        with open(os.path.join(args["dir"], f"{int(index)}.json"), "w") as f:
            json.dump(sc, f)


def main(argv):
    args = json.loads(argv[1])
    mode = args["mode"]
    faulthandler.enable()
    if mode == "prime":
        prime(args)
    elif mode == "corpus":
        corpus(args)
    elif mode == "dump":
        dump(args)
    elif mode == "explore":
        explore(args)
    elif mode == "replay":
        replay(args)
    elif mode == "shrink":
        shrink(args)
    else:
        raise SystemExit("unknown mode " + mode)
    return 0
