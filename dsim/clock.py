"""Simulated clock (seam S8): time.perf_counter under seeded skew, freezes and jumps."""
import contextlib
import time as _time

_REAL = _time.perf_counter


def gen_clock(rc, p_none=0.3):
    if rc.random() < p_none:
        return None
    spec = {"start": rc.choice([0.0, 1.0e3, 1.0e9, -5.0]), "tick": rc.choice([1e-6, 1e-4, 0.01, 1.0]),
            "rate": rc.choice([1.0, 1.0, 0.5, 3.0, 1e-3]), "faults": []}
    for _ in range(rc.randrange(0, 4)):
        kind = rc.choice(["freeze", "jump_forward", "jump_backward", "huge"])
        spec["faults"].append([kind, rc.randrange(0, 60), rc.choice([1, 3, 10]) if kind == "freeze" else rc.choice([7.5, 3600.0, 1e6])])
    return spec


class SimClock:
    """The only clock the code under test can see.  Deterministic: value = f(number of calls)."""

    def __init__(self, spec):
        self.spec = spec
        self.calls = 0
        self.fired = {}
        self.now = float(spec["start"]) if spec else 0.0
        self.t0 = self.now
        self.max_seen = self.now
        self._freeze = 0
        self._faults = {}
        if spec:
            for kind, at, mag in spec["faults"]:
                self._faults.setdefault(int(at), []).append((kind, mag))
            if spec.get("rate", 1.0) != 1.0:
                pass

    def _fire(self, name):
        self.fired[name] = self.fired.get(name, 0) + 1

    def __call__(self):
        i = self.calls
        self.calls += 1
        if not self.spec:
            self.now += 1e-4
            self.max_seen = max(self.max_seen, self.now)
            return self.now
        for kind, mag in self._faults.get(i, ()):
            if kind == "freeze":
                self._freeze = int(mag)
            elif kind == "jump_forward":
                self.now += float(mag); self._fire("clock_jump_forward")
            elif kind == "jump_backward":
                self.now -= float(mag); self._fire("clock_backward")
            elif kind == "huge":
                self._fire("clock_huge")
                return 1e300
        if self._freeze > 0:
            self._freeze -= 1
            self._fire("clock_freeze")
            return self.now
        if self.spec.get("rate", 1.0) != 1.0 and i == 0:
            self._fire("clock_skew")
        self.now += self.spec["tick"] * self.spec.get("rate", 1.0)
        self.max_seen = max(self.max_seen, self.now)
        return self.now

    def elapsed(self):
        return max(0.0, self.max_seen - self.t0)

    @contextlib.contextmanager
    def installed(self):
        old = _time.perf_counter
        _time.perf_counter = self
        try:
            yield self
        finally:
            _time.perf_counter = old
