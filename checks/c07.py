"""C07 - transfer-function estimates recover gain and phase with the right sign, identically on every backend.

The input->output law is the oracle; the simulator contributes the three execution engines (simulated prange workers,
simulated GPU grid - the only way the CUDA backend can execute here -, NumPy with chunk knob, compiled kernels with
real threads), each under fresh seeded schedules / knobs, through compute() and compute_single_bin().
"""
import copy

import numpy as np

from dsim import rng as R
from dsim import scenario as SC
from dsim import shrink as S
from dsim import worlds as W
from dsim import clock as CK
from dsim import refmodel as RM

PROPERTY = "C07"
RULE = (
    "one scenario = base record z, x = z[d:], y = g*x (gain law) or y = z[:N] (x delayed by d samples, d <= Lmin/16), a "
    "built-in scheduler plan with Lmin large enough, order, window; the analysis is executed in every world (sim-numba, "
    "sim-cuda, numpy knob, real-numba) via compute() and compute_single_bin(); non-trivial = >=3 bins pass the guard "
    "and >=2 worlds executed; distinct = scenario digest"
)
COMPONENTS = {
    "real": ["SpectrumAnalyzer.compute / compute_single_bin, Hxy / coh definitions", "Numba kernel source (interpreted, outlined)", "compiled Numba kernels",
             "NumPy kernels", "CUDA kernel + host wrapper source"],
    "simulated": ["prange schedule", "GPU schedule / geometry / poisoned memory", "NumPy chunk knob", "time.perf_counter"],
    "stub": ["GPU hardware (Numba CUDASIM)"],
}
ASSUMPTIONS = [
    "gain law asserted at every bin whose relative rounding bound rel = 16 eps max(L,8)^2 S/|X| (S ~ sum|w| * 2 max|x|) is <= 0.25, i.e. also at bins > 150 dB below the strongest one, with tolerance |g|*(1e-9 + rel); coherence with 1e-9 + 4 rel",
    "delay law asserted only at bins with omega*d mod pi in [0.5, pi-0.5] where the longdouble reference estimator on the same plan is itself within 0.25 rad / 25% of exp(-i omega d) (edge effect d/L can move single bins by up to ~0.9 rad)",
    "cross-world agreement of Hxy within the rounding budget relative to XX",
]

WORLD_KINDS = ["sim-numba", "sim-cuda", "numpy", "real-numba"]


def budget(tier):
    if tier == "thorough":
        return {"n": 100000, "wall_s": 1200, "workers": 16, "selftest": 24}
    return {"n": 640, "wall_s": 50, "workers": 16, "selftest": 3}


def prime():
    W.prime_compiled()


def generate(seed, tier):
    rw = R.stream(seed, "workload")
    rf = R.stream(seed, "faults")
    law = rw.choice(["gain", "delay", "delay"])
    big = rw.random() < 0.25
    if big:
        N = rw.choice([256, 400, 700, 1000])
        Lmin = rw.choice([32, 64, 128])
    else:
        N = rw.choice([64, 96, 96, 128])
        Lmin = rw.choice([16, 16, 32, 32])
    d = rw.randrange(1, max(2, Lmin // 16 + 1)) if law == "delay" else 0
    g = rw.choice([1.0, -1.0, 2.0, 0.5, -3.0, 1e-3, 1e3, round(rw.uniform(-10, 10), 3) or 1.0])
    cfg = SC.gen_config(rw, N, allow_custom=False, allow_band=True, allow_force=False, min_Lmin=Lmin)
    cfg["layout"] = rw.choice(SC.LAYOUTS)      # how a two-channel record is handed over (2xN, its transposed view, a list of rows)
    cfg["Lmin"] = Lmin
    cfg["Jdes"] = rw.choice([3, 5, 8, 12])
    cfg["win"] = rw.choice(["kaiser", "kaiser", "hann", "np_kaiser", "bartlett"])
    cfg["olap"] = rw.choice(["default", 0.5, 0.3, 0.75])
    if rw.random() < 0.15:
        cfg["olap"] = rw.choice([0.875, 0.9, 0.95])      # densely overlapping segments (K*L several times the record)
    if rw.random() < 0.12:
        cfg["scheduler_perm"] = rw.randrange(2 ** 31)      # a user scheduler emitting the built-in plan's bins in another order
    kinds = ["numpy", "real-numba"] if big else list(WORLD_KINDS)
    if big and rw.random() < 0.4:
        SC.make_big_plan(rw, cfg)
        cfg["Lmin"] = Lmin
        N = rw.choice([1500, 3000])
    data = {"N": N + d, "channels": 1, "recipe": rw.choice(["noise", "noise", "multisine", "trend+noise", "randwalk", "sine+noise", "line+floor", "steepred", "gapped", "gapped"]),
            "rng": rw.randrange(2 ** 31), "scale": rw.choice([1.0, 1e-3, 1e3, 1e-9]), "offset": rw.choice([0.0, 0.0, 1.0]), "coupling": 0.0}
    # data faults: non-finite samples in the base record z are zero-filled in both channels consistently
    # (x and y are slices of z), so both laws survive sanitising
    if rw.random() < 0.15:
        data["nonfinite"] = [[rf.randrange(0, N + d), rf.choice(["nan", "pinf", "ninf"])] for _ in range(rf.randrange(1, 4))]
    singles = [[rw.randrange(0, 64)] for _ in range(rw.randrange(0, 3))]
    if rw.random() < 0.35:
        # DC / Nyquist / above-Nyquist (accepted with a warning) single bins with explicit L
        singles.append(["edge", rw.choice([0.0, 0.5, round(rw.uniform(0.5, 1.0), 4), round(rw.uniform(0.5, 1.0), 4)]), rw.choice([16, 32, 33, 64])])
    rows_of_recording = rw.randrange(1, 2 ** 31) if rw.random() < 0.3 else None
    concurrent_decoy = rw.randrange(1, 2 ** 31) if rw.random() < 0.3 else None
    fortran_buffer = (rows_of_recording is None) and rw.random() < 0.2
    # attributes a user may read before the transfer function (exports, conditioned spectra, error bars ...)
    auto_first = rw.random() < 0.3      # the first channel analysed alone (same plan) before the pair, in the same process
    pre_access = rw.sample(RM.CROSS_ONLY + ["Gxx", "Gyy", "Gxy", "ENBW", "to_dataframe"], rw.randrange(0, 5)) if rw.random() < 0.5 else []
    # further stages: the caller refills the SAME preallocated buffer in place and analyses again
    refills = []
    for _ in range(rw.choice([0, 0, 0, 1]) if not big else rw.choice([0, 1, 2])):
        law2 = rw.choice(["gain", "delay"])
        d2 = rw.randrange(1, max(2, Lmin // 16 + 1)) if law2 == "delay" else 0
        g2 = rw.choice([1.0, -1.0, 2.0, 0.5, -3.0, 7.0])
        data2 = dict(data, recipe=rw.choice(["noise", "multisine", "randwalk"]), rng=rw.randrange(2 ** 31), N=N + d2)
        refills.append({"law": law2, "g": g2, "d": d2, "data": data2})
    # fault injection: the k-th next segment gather of the NumPy backend cannot allocate its block (one-shot MemoryError)
    alloc_fault = rw.choice([1, 1, 2, 3, 5]) if rw.random() < 0.2 else None
    return {"law": law, "g": g, "d": d, "N": N, "data": data, "cfg": cfg, "singles": singles, "refills": refills, "pre_access": pre_access, "auto_first": auto_first, "rows_of_recording": rows_of_recording, "concurrent_decoy": concurrent_decoy, "fortran_buffer": fortran_buffer,
            "alloc_fault": alloc_fault,
            "worlds": [W.gen_world(rf, k, 8) for k in kinds], "clock": CK.gen_clock(R.stream(seed, "clock"), p_none=0.5)}


def _records(sc):
    """Returns (x, y) as handed to the analyzer (possibly with non-finite samples) and their zero-filled versions."""
    spec = {k: v for k, v in sc["data"].items() if k != "nonfinite"}
    z = SC.make_record(spec)
    zf = z.copy()
    for pos, kind in sc["data"].get("nonfinite", []):
        if pos < len(z):
            z[pos] = {"nan": np.nan, "pinf": np.inf, "ninf": -np.inf}[kind]
            zf[pos] = 0.0
    d, N = sc["d"], sc["N"]

    def split(zz):
        x = np.ascontiguousarray(zz[d:d + N])
        if sc["law"] == "gain":
            with np.errstate(invalid="ignore"):
                y = sc["g"] * x
        else:
            y = np.ascontiguousarray(zz[0:N])    # y[n] = x[n - d]
        return x, y

    return split(z), split(zf)


def execute(sc, out):
    """Stage 0 and every refill stage run on ONE caller-owned (2, N) buffer that is overwritten in place
    (an analyzer may alias it; any cache keyed by buffer identity instead of content shows up here)."""
    stages = [sc] + [dict(sc, **r) for r in sc.get("refills", [])]
    if sc.get("rows_of_recording"):
        big = np.random.default_rng(sc["rows_of_recording"]).normal(size=(4, sc["N"])) * 3.0
        buf = big[2:4]              # the pair is a contiguous row-slice view of a larger recording
        out.count("channels_are_rows_of_a_larger_recording")
    elif sc.get("fortran_buffer"):
        buf = np.empty((2, sc["N"]), dtype=np.float64, order="F")      # e.g. table.T of a sample-major N x 2 table
        out.count("fortran_ordered_buffer")
    else:
        buf = np.empty((2, sc["N"]), dtype=np.float64)
    for si, st in enumerate(stages):
        if si:
            out.count("buffer_refilled_in_place")
        _execute_stage(st, out, buf, si)
        if out.discarded:
            return


def _execute_stage(sc, out, buf, stage):
    (xr, yr), (x, y) = _records(sc)
    buf[0, :] = xr
    buf[1, :] = yr
    data = buf
    x, y = x.copy(), y.copy()          # zero-filled record: what the estimator is specified to see
    if sc["data"].get("nonfinite"):
        out.count("data_fault_nonfinite")
    cfg0 = sc["cfg"]
    fs = cfg0["fs"]
    d, g, law = sc["d"], sc["g"], sc["law"]
    clock = CK.SimClock(sc.get("clock"))
    per_world = {}
    edge_world = {}
    plan_ref = None
    for ws in sc["worlds"]:
        world = ws["world"]
        cfg = dict(cfg0)
        cfg["backend"] = W.backend_of(ws)
        try:
            with clock.installed(), W.analysis_world(ws) as ctx:
                if sc.get("auto_first"):
                    try:
                        SC.build_analyzer(np.array(data[0], copy=True), cfg).compute()
                        out.count("auto_analysis_before_pair")
                    except Exception:
                        pass
                an = SC.build_analyzer(data, cfg)
                decoy = None
                if world == "numpy" and sc.get("concurrent_decoy"):
                    drec = np.random.default_rng(sc["concurrent_decoy"]).normal(size=data.shape)
                    drec[1] = 7.25 * drec[0]
                    decoy = SC.build_analyzer(drec, dict(cfg, band=None))
                try:
                    an.plan()
                except Exception as e:
                    out.discarded = "plan_failure"
                    out.count("discarded_plan_failure")
                    out.extra["discard_reason"] = f"{type(e).__name__}: {e}"[:200]
                    return
                if decoy is not None and ctx is not None:
                    try:
                        decoy.plan()
                        res, _dres = W.run_concurrently(ctx, [an.compute, decoy.compute])     # another caller at the same time
                        out.count("two_concurrent_callers")
                    except Exception:
                        res = an.compute()
                elif world == "numpy" and sc.get("alloc_fault"):
                    # whatever the library does about a failed allocation, a result it returns obeys the laws
                    res = None
                    with W.AllocFault() as af:
                        af.arm(sc["alloc_fault"])
                        try:
                            res = an.compute()
                        except MemoryError:
                            out.count("alloc_fault_fired_and_propagated")
                        finally:
                            af.disarm()
                        if res is not None and af.fired:
                            out.count("alloc_fault_survived_by_library")
                    if res is None:
                        res = an.compute()
                else:
                    res = an.compute()
                for nm in sc.get("pre_access", []):
                    try:
                        res.to_dataframe() if nm == "to_dataframe" else getattr(res, nm)
                    except Exception:
                        pass
                sing = []
                edge = []
                fres_pairs = []
                nf = len(res.f)
                for sg in sc["singles"]:
                    if sg[0] == "edge":
                        if sg[2] <= data.shape[1]:
                            edge.append((sg[1] * cfg["fs"], sg[2], an.compute_single_bin(sg[1] * cfg["fs"], L=sg[2])))
                        continue
                    j = sg[0] % nf
                    rs_L = an.compute_single_bin(float(res.f[j]), L=int(res.L[j]))
                    sing.append((j, rs_L))
                    Lj = int(res.L[j])
                    rs_f = an.compute_single_bin(float(res.f[j]), fres=cfg["fs"] / (Lj + 0.37))     # rounds to the same L
                    if int(rs_f.L[0]) == Lj:
                        fres_pairs.append((j, complex(np.asarray(rs_L.Hxy)[0]), complex(np.asarray(rs_f.Hxy)[0])))
            W.absorb(out, ctx)
        except Exception as e:
            from dsim.sched import HarnessError

            if isinstance(e, HarnessError):
                raise
            out.violate("exception", f"backend={cfg['backend']}", f"world={world}: {type(e).__name__}: {str(e)[:200]}")
            continue
        per_world[world] = (res, sing)
        edge_world[world] = edge
        for j, hL, hf in fres_pairs:
            out.count("single_bin_fres_vs_L_route")
            if not abs(hL - hf) <= 1e-9 * max(abs(hL), 1e-300):
                out.violate("single_bin_fres_route_differs", f"backend={cfg['backend']}",
                            f"world={world} bin {j}: compute_single_bin(f, L={int(res.L[j])}) gives Hxy={hL!r}, the same bin requested with fres (rounding to the same L) gives {hf!r}")
        out.count("world_" + world)
        if plan_ref is None:
            plan_ref = res
    if not per_world:
        return
    res0 = plan_ref
    f = np.asarray(res0.f)
    Ls = np.asarray(res0.L)
    nf = len(f)
    omega = 2 * np.pi * f / fs
    # per-bin scale S_est and reference model (delay guard)
    xmax = float(max(np.max(np.abs(x)), np.max(np.abs(y))))
    wsum = np.array([float(np.sum(np.abs(SC.reference_window(cfg0["win"], cfg0["psll"], int(L))))) for L in Ls])
    S_est = wsum * 2.0 * xmax
    guard_bins = np.zeros(nf, dtype=bool)
    if law == "delay":
        stride = max(1, nf // 60)          # large plans: the reference estimator vouches for a subsample of the bins
        for j in range(0, nf, stride):
            ph = (omega[j] * d) % np.pi
            if not (0.5 <= ph <= np.pi - 0.5):
                continue
            w = SC.reference_window(cfg0["win"], cfg0["psll"], int(Ls[j]))
            (mxx, myy, mur, mui, m2), t2, t4, S = RM.ref_stats(x, y, np.asarray(res0.D[j]), int(Ls[j]), w, omega[j], cfg0["order"])
            if mxx <= 1e-6 * S * S:
                continue
            href = complex(mur, -mui) / mxx
            dev = href * np.exp(1j * omega[j] * d)
            if abs(np.angle(dev)) <= 0.25 and abs(abs(href) - 1.0) <= 0.25:
                guard_bins[j] = True
    nguard = 0
    for world, (res, sing) in per_world.items():
        backend = {"sim-numba": "numba", "real-numba": "numba", "numpy": "numpy", "sim-cuda": "cuda"}[world]
        H = np.asarray(res.Hxy)
        coh = np.asarray(res.coh)
        XX = np.asarray(res.XX)
        if len(H) != nf or not np.array_equal(np.asarray(res.f), f):
            out.violate("plan_differs_between_backends", f"backend={backend}", "the plan of this backend's result differs from the first world's")
            continue
        out.observe(world, H, coh)
        views = [("compute", j, H[j], coh[j], XX[j], bool(guard_bins[j])) for j in range(nf)]
        # the same estimate through its other public views: the alias tf, and magnitude cf with the phase in radians / degrees
        for nm in ("tf", "cf_rad", "cf_deg"):
            try:
                if nm == "tf":
                    H2 = np.asarray(res.tf)
                else:
                    ph = np.asarray(getattr(res, nm), dtype=np.float64)
                    H2 = np.asarray(res.cf, dtype=np.float64) * np.exp(1j * (np.deg2rad(ph) if nm == "cf_deg" else ph))
            except Exception as e:  # noqa: BLE001
                out.violate("exception", f"backend={backend} view={nm}", f"world={world}: {type(e).__name__}: {str(e)[:160]}")
                continue
            if H2.shape == H.shape:
                views += [(f"compute:{nm}", j, complex(H2[j]), coh[j], XX[j], bool(guard_bins[j])) for j in range(nf)]
        for j, rs in sing:
            # a single-bin result has its OWN segmentation: the reference model has to vouch for the law on that one
            gd = False
            if law == "delay":
                if np.array_equal(np.asarray(rs.D[0]), np.asarray(res.D[j])):
                    gd = bool(guard_bins[j])
                else:
                    ph_ = (omega[j] * d) % np.pi
                    if 0.5 <= ph_ <= np.pi - 0.5:
                        w_ = SC.reference_window(cfg0["win"], cfg0["psll"], int(Ls[j]))
                        (mxx_, _, mur_, mui_, _), _, _, S_ = RM.ref_stats(x, y, np.asarray(rs.D[0]), int(Ls[j]), w_, omega[j], cfg0["order"])
                        if mxx_ > 1e-6 * S_ * S_:
                            hr_ = complex(mur_, -mui_) / mxx_
                            dv_ = hr_ * np.exp(1j * omega[j] * d)
                            gd = abs(np.angle(dv_)) <= 0.25 and abs(abs(hr_) - 1.0) <= 0.25
            views.append(("single", j, complex(np.asarray(rs.Hxy)[0]), float(np.asarray(rs.coh)[0]), float(np.asarray(rs.XX)[0]), gd))
            # the two public routes to one bin: same segmentation => same transfer function (within the rounding budget)
            if np.array_equal(np.asarray(rs.D[0]), np.asarray(res.D[j])) and XX[j] > 0:
                hs = complex(np.asarray(rs.Hxy)[0])
                tol_r = 128 * RM.EPS * max(int(Ls[j]), 8) ** 2 * S_est[j] ** 2 * (max(abs(g), 1.0) if law == "gain" else 1.0) / XX[j] + 1e-12 * abs(H[j])
                out.count("single_vs_compute_same_segmentation")
                if XX[j] >= 1e-6 * S_est[j] ** 2 and not abs(hs - H[j]) <= tol_r:
                    out.violate("single_bin_disagrees_with_compute", f"backend={backend}",
                                f"world={world} bin {j} (L={int(Ls[j])}, K={len(res.D[j])}): compute() gives Hxy={H[j]!r}, compute_single_bin at the same f, L and segmentation gives {hs!r}")
        for via, j, h, c, xx, guarded in views:
            L = int(Ls[j])
            S = S_est[j]
            if law == "gain":
                # the law is asserted wherever the bin stands clear of the rounding noise of the recurrence:
                # relative rounding error of X is bounded by 16 eps max(L,8)^2 S/|X| (>= 400x above the worst observed)
                if not xx > 0.0:
                    continue
                Xabs = np.sqrt(xx)
                rel = 16 * RM.EPS * max(L, 8) ** 2 * S / Xabs
                if not rel <= 0.25:
                    continue
                nguard += 1
                if xx < 1e-12 * S * S:
                    out.count("gain_law_checked_at_weak_bin")
                tol = abs(g) * (1e-9 + rel)
                if not abs(h - g) <= tol:
                    out.violate("gain_law", f"backend={backend} via={via}", f"stage {stage} world={world} bin {j} (f={f[j]:.6g}, L={L}): Hxy={h!r}, expected g={g!r} (tol {tol:.2e})")
                if not abs(c - 1.0) <= 1e-9 + 4 * rel:
                    out.violate("gain_coherence", f"backend={backend} via={via}", f"world={world} bin {j}: coherence {c!r} for y = g*x")
            else:
                if not guarded:
                    continue
                nguard += 1
                dev = h * np.exp(1j * omega[j] * d)
                if not (abs(np.angle(dev)) < 0.5 and abs(abs(h) - 1.0) < 0.5):
                    out.violate("delay_law", f"backend={backend} via={via}",
                                f"stage {stage} world={world} bin {j} (f={f[j]:.6g}, L={L}, d={d}): arg Hxy={np.angle(h):.4f} rad, expected {-(omega[j] * d):.4f} (mod 2pi); |Hxy|={abs(h):.4f}")
    # single-bin requests at DC / Nyquist / above Nyquist: delay law (shift theorem holds for any omega), guarded by the reference model
    if law == "delay":
        for world, edges in edge_world.items():
            backend = {"sim-numba": "numba", "real-numba": "numba", "numpy": "numpy", "sim-cuda": "cuda"}[world]
            for fE, LE, rs in edges:
                omE = 2 * np.pi * fE / fs
                ph = (omE * d) % np.pi
                if not (0.5 <= ph <= np.pi - 0.5):
                    continue
                wE = SC.reference_window(cfg0["win"], cfg0["psll"], int(LE))
                (mxx, myy, mur, mui, m2), _, _, _ = RM.ref_stats(x, y, np.asarray(rs.D[0]), int(LE), wE, omE, cfg0["order"])
                if not mxx > 0:
                    continue
                href = complex(mur, -mui) / mxx
                devr = href * np.exp(1j * omE * d)
                if not (abs(np.angle(devr)) <= 0.25 and abs(abs(href) - 1.0) <= 0.25):
                    continue
                h = complex(np.asarray(rs.Hxy)[0])
                dev = h * np.exp(1j * omE * d)
                out.count("delay_law_at_edge_or_above_nyquist")
                if not (abs(np.angle(dev)) < 0.5 and abs(abs(h) - 1.0) < 0.5):
                    out.violate("delay_law", f"backend={backend} via=single_edge",
                                f"stage {stage} world={world} single bin at f={fE!r} (fs={fs}, L={LE}, d={d}): arg Hxy={np.angle(h):.4f}, expected {-(omE * d) % (2 * np.pi):.4f} (mod 2pi)")
    # DC / Nyquist single-bin requests: y = g*x holds there too (X real)
    if law == "gain":
        for world, edges in edge_world.items():
            backend = {"sim-numba": "numba", "real-numba": "numba", "numpy": "numpy", "sim-cuda": "cuda"}[world]
            for fE, LE, rs in edges:
                xx = float(np.asarray(rs.XX)[0])
                h = complex(np.asarray(rs.Hxy)[0])
                wE = SC.reference_window(cfg0["win"], cfg0["psll"], int(LE))
                S = float(np.sum(np.abs(wE))) * 2.0 * xmax
                if not xx > 0.0:
                    continue
                rel = 16 * RM.EPS * max(int(LE), 8) ** 2 * S / np.sqrt(xx)
                if not rel <= 0.25:
                    continue
                out.count("gain_law_at_dc_or_nyquist")
                if not abs(h - g) <= abs(g) * (1e-9 + rel):
                    out.violate("gain_law", f"backend={backend} via=single_edge", f"stage {stage} world={world} single bin at f={fE!r} (L={LE}): Hxy={h!r}, expected g={g!r}")
    # identical across backends (within the rounding budget relative to XX)
    ws_ = list(per_world.items())
    for (wa, (ra, _)), (wb, (rb, _)) in zip(ws_, ws_[1:]):
        Ha, Hb = np.asarray(ra.Hxy), np.asarray(rb.Hxy)
        XXa = np.asarray(ra.XX)
        if len(Ha) != len(Hb):
            continue
        for j in range(nf):
            S = S_est[j]
            if not XXa[j] >= 1e-6 * S * S:
                continue
            gy = max(abs(g), 1.0) if law == "gain" else 1.0
            tol = 128 * RM.EPS * max(int(Ls[j]), 8) ** 2 * S * S * gy / XXa[j] + 1e-12 * abs(Ha[j])
            if not abs(Ha[j] - Hb[j]) <= tol:
                out.violate("backends_disagree", f"{wa}|{wb}".replace("sim-", "").replace("real-", ""), f"bin {j}: Hxy {Ha[j]!r} in {wa} vs {Hb[j]!r} in {wb} (tol {tol:.2e})")
                break
    out.count("guarded_bins", nguard)
    out.count("law_" + law)
    out.nontrivial = bool(out.nontrivial or (nguard >= 3 and len(per_world) >= 2))
    out.sim_time_s += clock.elapsed()
    out.summary = {"law": law, "g": g, "d": d, "nf": nf, "guarded": nguard, "worlds": list(per_world), "stages": stage + 1}


def size(sc):
    return sc["N"] + 10 * len(sc["worlds"])


def shrink_candidates(sc):
    if len(sc["worlds"]) > 1:
        for i in range(len(sc["worlds"])):
            c = copy.deepcopy(sc); del c["worlds"][i]; yield c
    for i, ws in enumerate(sc["worlds"]):
        if ws["world"].startswith("sim") and not ws.get("serial"):
            c = copy.deepcopy(sc); c["worlds"][i]["serial"] = True; yield c
    if sc["singles"]:
        c = copy.deepcopy(sc); c["singles"] = []; yield c
    for i in range(len(sc.get("refills", []))):
        c = copy.deepcopy(sc); del c["refills"][i]; yield c
    if sc.get("clock"):
        c = copy.deepcopy(sc); c["clock"] = None; yield c
    if sc["cfg"].get("band") is not None:
        c = copy.deepcopy(sc); c["cfg"]["band"] = None; yield c
    for N in (64, 96, 128):
        if N < sc["N"] and N >= 2 * sc["cfg"]["Lmin"]:
            c = copy.deepcopy(sc); c["N"] = N; c["data"]["N"] = N + c["d"]; yield c
    if sc["data"]["recipe"] != "noise":
        c = copy.deepcopy(sc); c["data"]["recipe"] = "noise"; yield c
    for k, v in (("order", 0), ("win", "hann"), ("olap", 0.5), ("scheduler", "ltf")):
        if sc["cfg"].get(k) != v:
            c = copy.deepcopy(sc); c["cfg"][k] = v; yield c
