"""Small, executable, independent reference models (DESIGN 3)."""
import numpy as np

EPS = float(np.finfo(np.float64).eps)

# ---------------------------------------------------------------------------
# R1: segment statistics by direct evaluation of the windowed DFT definition
# ---------------------------------------------------------------------------

def _poly_trend(seg, order):
    """Least-squares polynomial of degree min(order, L-1) fitted to the unwindowed segment (longdouble)."""
    L = seg.shape[0]
    if order < 0:
        return np.zeros(L, dtype=np.longdouble)
    deg = min(order, L - 1)
    if deg == 0:
        return np.full(L, seg.sum() / np.longdouble(L), dtype=np.longdouble)
    # orthonormal basis by Gram-Schmidt on centred monomials, in longdouble
    t = np.linspace(-1.0, 1.0, L).astype(np.longdouble) if L > 1 else np.zeros(1, dtype=np.longdouble)
    basis = []
    for p in range(deg + 1):
        v = t ** p
        for b in basis:
            v = v - (v @ b) * b
        for b in basis:  # second pass for stability
            v = v - (v @ b) * b
        nrm = np.sqrt(v @ v)
        if nrm > 0:
            basis.append(v / nrm)
    tr = np.zeros(L, dtype=np.longdouble)
    for b in basis:
        tr = tr + (seg @ b) * b
    return tr


C_REC = 16.0     # recurrence + windowing: amplitude error <= C_REC * eps * G * sum|w||x - trend|, G = L/max(|sin w|, 1/L) <= L^2
C_TREND = 16.0   # trend fit / evaluation: amplitude error <= C_TREND * eps * max(L,8) * max|x_seg| * sum|w|


def segment_dft(x, starts, L, w, omega, order):
    """X_k(omega) = sum_n w[n] (x_k[n] - trend_k[n]) exp(-i omega n) in longdouble.
    Also returns A_k, the amplitude rounding budget of segment k (see ref_stats)."""
    x = np.asarray(x, dtype=np.longdouble)
    w = np.asarray(w, dtype=np.longdouble)
    n = np.arange(L, dtype=np.longdouble)
    om = np.longdouble(omega)
    c = np.cos(om * n)
    s = np.sin(om * n)
    K = len(starts)
    Xr = np.zeros(K, dtype=np.longdouble)
    Xi = np.zeros(K, dtype=np.longdouble)
    A = np.zeros(K, dtype=np.longdouble)
    aw = np.abs(w)
    Lb = max(L, 8)
    # error growth of the Goertzel recurrence over a segment: ~ L / |sin omega|, at most L^2 (near 0 and pi)
    growth = Lb / max(abs(float(np.sin(float(omega)))), 1.0 / Lb)
    for k, st in enumerate(starts):
        st = int(st)
        seg = x[st:st + L]
        tr = _poly_trend(seg, order)
        res = seg - tr
        v = w * res
        Xr[k] = v @ c
        Xi[k] = -(v @ s)
        # the recurrence works on the windowed *detrended* samples; the trend itself is fitted from all samples of
        # the segment (a window zero must not hide a large sample), with an error proportional to the largest sample
        A[k] = C_REC * EPS * growth * (aw @ np.abs(res))
        if order >= 0 and L > 0:
            A[k] += C_TREND * EPS * Lb * np.max(np.abs(seg)) * aw.sum()
    return Xr, Xi, A


def ref_stats(x, y, starts, L, w, omega, order):
    """Reference (MXX, MYY, mu_r, mu_i, M2) by direct evaluation of the definition, and the rounding budget of each.

    Budget ("rounding budget of the recurrence"): every segment value X_k may be off by the amplitude A_k above; the
    statistics inherit  |d|X|^2| <= 2|X|A + A^2,  |d(X conj Y)| <= |X|A_y + |Y|A_x + A_x A_y,  and for the scatter
    about the mean  |dM2| <= 4 Z dz + 4 dz^2  with Z = max|z_k - mu|, dz = max per-segment cross-product budget.
    Returns (ref5, tol2, tol4, S) for backward compatibility (tol2 = the largest power-like tolerance) and stores the
    per-statistic tolerances in ref_stats.last_tols.
    """
    Xr, Xi, Ax = segment_dft(x, starts, L, w, omega, order)
    if y is None:
        Yr, Yi, Ay = Xr, Xi, Ax
    else:
        Yr, Yi, Ay = segment_dft(y, starts, L, w, omega, order)
    K = len(starts)
    aX = np.sqrt(Xr * Xr + Xi * Xi)
    aY = np.sqrt(Yr * Yr + Yi * Yi)
    pxx = aX * aX
    pyy = aY * aY
    zr = Xr * Yr + Xi * Yi          # Re X conj(Y)
    zi = Xi * Yr - Xr * Yi          # Im X conj(Y)
    if y is None:
        zr = pxx
        zi = np.zeros_like(pxx)
    MXX = pxx.mean()
    MYY = pyy.mean()
    mur = zr.mean()
    mui = zi.mean()
    dxx = 2 * aX * Ax + Ax * Ax
    dyy = 2 * aY * Ay + Ay * Ay
    dz = aX * Ay + aY * Ax + Ax * Ay
    if K >= 2:
        M2 = ((zr - mur) ** 2 + (zi - mui) ** 2).mean()
        Z = np.sqrt(((zr - mur) ** 2 + (zi - mui) ** 2).max())
        dzm = dz.max()
        tM2 = 4 * Z * dzm + 4 * dzm * dzm
    else:
        M2 = np.longdouble(0.0)
        tM2 = np.longdouble(0.0)
    tiny = 1e-300
    # the averaging over K segments itself: (naive) float64 summation, error <= ~eps*K relative to the summed magnitudes
    red = 2.0 * EPS * max(K, 1)
    tXX = float(dxx.mean() + red * MXX) + tiny
    tYY = float(dyy.mean() + red * MYY) + tiny
    tmu = float(dz.mean() + red * np.sqrt(zr * zr + zi * zi).mean()) + tiny
    if K >= 2:
        tM2 = float(tM2 + 4.0 * red * (M2 + Z * Z))
    tM2 = float(tM2) + tiny
    ref_stats.last_tols = (tXX, tYY, tmu, tmu, tM2)
    S = float(max(Ax.max(), Ay.max())) if K else 0.0
    return (float(MXX), float(MYY), float(mur), float(mui), float(M2)), max(tXX, tYY, tmu), tM2, S


ref_stats.last_tols = None


# ---------------------------------------------------------------------------
# R3: documented derived quantities of a result
# ---------------------------------------------------------------------------

CROSS_ONLY = [
    "csd", "Gyx", "Hxy", "Hyx", "coh", "ccoh", "cs", "tf", "cf", "cf_db", "cf_rad", "cf_deg",
    "cf_rad_unwrapped", "cf_deg_unwrapped", "GyyCx", "GyyRx", "GyySx", "Gxy_dev", "Hxy_dev", "coh_dev",
    "Gxy_error", "Hxy_mag_error", "Hxy_rad_error", "Hxy_deg_error", "coh_error", "Gxy_emp_dev",
]
AUTO_ONLY = ["psd", "G", "asd", "ps", "Gxx_emp_dev"]
BOTH = [
    "Gxx", "Gyy", "Gxy", "ENBW", "Gxx_dev", "Gyy_dev", "Gxx_error", "Gyy_error", "XX_mean", "YY_mean", "XY_M2",
    "XY_emp_var", "XY_emp_dev",
]
RAW = ["f", "r", "b", "L", "K", "navg", "O", "XX", "YY", "XY", "S12", "S2", "M2", "compute_t"]
DERIVED = BOTH + AUTO_ONLY + CROSS_ONLY


def _div(a, b):
    a = np.asarray(a)
    out = np.zeros(a.shape, dtype=np.result_type(a.dtype, np.float64))
    b = np.broadcast_to(np.asarray(b, dtype=np.float64), a.shape)
    m = b != 0
    out[m] = a[m] / b[m]
    return out


def r3_table(XX, YY, XY, S2, S12, fs, iscsd):
    """name -> documented value computed from the base estimates (only what C20 states)."""
    t = {}
    t["Gxx"] = _div(2.0 * XX, fs * S2)
    t["ENBW"] = _div(fs * S2, S12)
    if iscsd:
        t["Gyy"] = _div(2.0 * YY, fs * S2)
        t["Gxy"] = _div(2.0 * XY, fs * S2)
        t["csd"] = t["Gxy"]
        t["Gyx"] = np.conj(t["Gxy"])
        t["Hxy"] = _div(np.conj(XY), XX)
        t["tf"] = t["Hxy"]
        t["Hyx"] = np.conj(t["Hxy"])
        m = (XX != 0) & (YY != 0)
        coh = np.zeros_like(XX)
        coh[m] = np.abs(XY[m]) ** 2 / (XX[m] * YY[m])
        t["coh"] = coh
        t["cf"] = np.abs(t["Hxy"])
        t["cs"] = t["Gxy"] * t["ENBW"]
    else:
        t["Gyy"] = t["Gxx"]
        t["Gxy"] = t["Gxx"]
        t["psd"] = t["Gxx"]
        t["G"] = t["Gxx"]
        t["asd"] = np.sqrt(t["Gxx"])
        t["ps"] = t["Gxx"] * t["ENBW"]
    return t
