"""Simulated thread pool: concurrent.futures under the simulator's control.

SpecKit at the pinned commit creates no Python-level thread pool, but "run the bins on a ThreadPoolExecutor and collect
with as_completed" is the most natural parallelisation a maintainer would add, and completion order is then decided by
the OS.  This module replaces ``concurrent.futures.ThreadPoolExecutor`` / ``as_completed`` / ``wait`` *before* speckit
is imported (so ``from concurrent.futures import ...`` inside the library binds the simulated names).  Submitted
callables run to completion one at a time, in an order drawn from the current scenario's schedule stream; under the
serial baseline they run in submission order.  Deterministic by construction; exposes order-dependence, not data races
inside the tasks.
"""
import concurrent.futures as cf
import random

from . import parfor

_installed = False
_fallback = random.Random(0)
stats = {"executors": 0, "tasks": 0, "out_of_order": 0}


def _rnd_and_serial():
    ctx = parfor.current()
    if ctx is None:
        return None, True          # outside a simulated world: natural order (behaves like a 1-thread pool)
    return ctx.rnd, bool(ctx.serial)


class SimFuture(cf.Future):
    def __init__(self, pool, fn, args, kwargs):
        super().__init__()
        self._pool = pool
        self._fn = fn
        self._args = args
        self._kwargs = kwargs
        self._ran = False

    def _run(self):
        if self._ran:
            return
        self._ran = True
        if not self.set_running_or_notify_cancel():
            return
        try:
            self.set_result(self._fn(*self._args, **self._kwargs))
        except BaseException as e:  # noqa: BLE001
            self.set_exception(e)

    def result(self, timeout=None):
        if not self._ran:
            self._pool._run_until(self)
        return super().result(timeout=0)

    def exception(self, timeout=None):
        if not self._ran:
            self._pool._run_until(self)
        return super().exception(timeout=0)


class SimThreadPoolExecutor(cf.Executor):
    """Drop-in for ThreadPoolExecutor whose 'threads' are run one after the other in a seeded order."""

    def __init__(self, max_workers=None, thread_name_prefix="", initializer=None, initargs=()):
        self._pending = []
        self._shutdown = False
        self._max_workers = max_workers or 4
        stats["executors"] += 1
        ctx = parfor.current()
        if ctx is not None:
            ctx.count("sim_thread_pool")
        if initializer is not None:
            initializer(*initargs)

    def submit(self, fn, /, *args, **kwargs):
        if self._shutdown:
            raise RuntimeError("cannot schedule new futures after shutdown")
        f = SimFuture(self, fn, args, kwargs)
        self._pending.append(f)
        stats["tasks"] += 1
        return f

    def _order(self, futs):
        rnd, serial = _rnd_and_serial()
        futs = list(futs)
        if not serial and rnd is not None and len(futs) > 1:
            before = list(futs)
            rnd.shuffle(futs)
            if futs != before:
                stats["out_of_order"] += 1
                ctx = parfor.current()
                if ctx is not None:
                    ctx.count("sim_thread_pool_out_of_order")
        return futs

    def _run_pending(self):
        todo = [f for f in self._pending if not f._ran]
        self._pending = []
        for f in self._order(todo):
            f._run()

    def _run_until(self, fut):
        todo = [f for f in self._pending if not f._ran]
        for f in self._order(todo):
            f._run()
            if f is fut:
                break
        self._pending = [f for f in self._pending if not f._ran]
        if not fut._ran:
            fut._run()

    def map(self, fn, *iterables, timeout=None, chunksize=1):
        futs = [self.submit(fn, *args) for args in zip(*iterables)]
        self._run_pending()

        def gen():
            for f in futs:
                yield f.result()

        return gen()

    def shutdown(self, wait=True, *, cancel_futures=False):
        if cancel_futures:
            for f in self._pending:
                if not f._ran:
                    f.cancel()
            self._pending = []
        else:
            self._run_pending()
        self._shutdown = True


def sim_as_completed(fs, timeout=None):
    """Completion order is the simulator's choice: all pending futures are run in seeded order, yielded as they finish."""
    fs = list(fs)
    seen = set()
    sims = [f for f in fs if isinstance(f, SimFuture)]
    others = [f for f in fs if not isinstance(f, SimFuture)]
    if others:
        yield from _real_as_completed(others, timeout)
    done_first = [f for f in sims if f._ran]
    todo = [f for f in sims if not f._ran]
    pool = sims[0]._pool if sims else None
    order = pool._order(todo) if pool is not None else todo
    rnd, serial = _rnd_and_serial()
    finished = list(done_first)
    if not serial and rnd is not None:
        rnd.shuffle(finished)
    for f in finished:
        if id(f) not in seen:
            seen.add(id(f))
            yield f
    for f in order:
        f._run()
        if id(f) not in seen:
            seen.add(id(f))
            yield f


def sim_wait(fs, timeout=None, return_when=cf.ALL_COMPLETED):
    fs = list(fs)
    for f in fs:
        if isinstance(f, SimFuture) and not f._ran:
            f._pool._run_until(f)
    return cf._base.DoneAndNotDoneFutures(set(fs), set())


_real_as_completed = cf.as_completed


def install():
    global _installed
    if _installed:
        return
    _installed = True
    import concurrent.futures.thread as cft

    cf.ThreadPoolExecutor = SimThreadPoolExecutor
    cft.ThreadPoolExecutor = SimThreadPoolExecutor
    cf.as_completed = sim_as_completed
    cf.wait = sim_wait
