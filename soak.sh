#!/bin/sh
# Soak: run the quick tier of every check over a range of VERIF_SEED values; print one line per run.
# usage: ./soak.sh <first-seed> <last-seed> [ids...]
a=$1; b=$2; shift 2
ids=${*:-C01 C05 C07 C13 C14 C17 C20}
for s in $(seq $a $b); do
  for id in $ids; do
    out=$(VERIF_SEED=$s ./check $id --tier quick 2>&1); rc=$?
    echo "seed=$s $id rc=$rc $(echo "$out" | grep -E 'OK:|VIOLATION|HARNESS' | head -3 | tr '\n' ' ')"
    if [ $rc -ne 0 ]; then echo "$out" | grep -E '^violation' | head -5; fi
  done
done
