"""A long-lived world around a history of operations, with re-drawable schedules, plus result comparison helpers."""
import copy
import random

import numpy as np

from . import parfor, worlds as W
from . import refmodel as RM

RAW_CMP = ["f", "r", "b", "L", "K", "navg", "O", "D", "XX", "YY", "XY", "S12", "S2", "M2"]
ALL_ATTRS = RM.DERIVED + [n for n in RM.RAW if n != "compute_t"] + ["D"]


def eq(a, b):
    """NaN-aware exact equality (arrays, ragged object arrays / lists of arrays, None, scalars)."""
    if a is None or b is None:
        return a is None and b is None
    if isinstance(a, (list, tuple)) and isinstance(b, (list, tuple)):
        return len(a) == len(b) and all(eq(x, y) for x, y in zip(a, b))
    if isinstance(a, np.ndarray) or isinstance(b, np.ndarray):
        if isinstance(a, (list, tuple)):
            a = _obj(a)
        if isinstance(b, (list, tuple)):
            b = _obj(b)
        a = np.asarray(a)
        b = np.asarray(b)
        if a.dtype == object or b.dtype == object:
            if a.shape[:1] != b.shape[:1]:
                return False
            return all(eq(np.asarray(x), np.asarray(y)) for x, y in zip(a, b))
        if a.shape != b.shape or a.dtype != b.dtype:
            return False
        return bool(np.array_equal(a, b, equal_nan=True))
    try:
        return bool(a == b) or (a != a and b != b)
    except Exception:
        return False


def _obj(lst):
    o = np.empty(len(lst), dtype=object)
    for i, v in enumerate(lst):
        o[i] = v
    return o


def snap(v):
    if isinstance(v, np.ndarray):
        return copy.deepcopy(v) if v.dtype == object else np.array(v, copy=True)
    return copy.deepcopy(v)


def snapshot_plan(p):
    return {k: snap(v) for k, v in p.items()}


def plan_equal(p, s):
    if set(p.keys()) != set(s.keys()):
        return "keys " + str(sorted(set(p.keys()) ^ set(s.keys())))
    for k in sorted(s.keys()):
        if not eq(p[k], s[k]):
            return k
    return None


def raw_fields(res):
    return {n: snap(getattr(res, n)) for n in RAW_CMP}


def diff_fields(a, b, names=None):
    for n in names or sorted(a.keys()):
        if not eq(a[n], b[n]):
            return n
    return None


class WorldSession:
    """Installs one world for a whole history; `resched` re-draws the schedule / knobs for the next kernel calls."""

    def __init__(self, wspec):
        self.world = wspec["world"]
        self.spec = dict(wspec)
        self.ctxs = []
        self._stack = None
        self.ctx = None
        self._saved = None

    def __enter__(self):
        import contextlib

        self._stack = contextlib.ExitStack()
        if self.world == "sim-numba":
            self.ctx = W.make_ctx(self.spec, serial=self.spec.get("serial", False))
            self.ctxs.append(self.ctx)
            self._stack.enter_context(W.sim_numba(self.ctx))
        elif self.world == "sim-cuda":
            self.ctx = W.make_ctx(self.spec, serial=self.spec.get("serial", False))
            self.ctxs.append(self.ctx)
            self._stack.enter_context(W.sim_cuda(self.ctx, self.spec.get("tpb")))
        elif self.world == "real-numba":
            self._stack.enter_context(W.real_numba(self.spec.get("threads"), self.spec.get("chunksize")))
        elif self.world == "numpy":
            self._np = self._stack.enter_context(_NumpyKnob(self.spec.get("chunk")))
        if self.world in ("real-numba", "numpy"):
            # a context also in the non-simulated worlds: it drives the simulated Python thread pool (dsim.simexec)
            self.ctx = W.make_ctx(self.spec)
            self.ctxs.append(self.ctx)
            self._old_ctx = parfor.current()
            parfor.set_context(self.ctx)
            self._stack.callback(parfor.set_context, self._old_ctx)
        return self

    def __exit__(self, *exc):
        self._stack.close()
        return False

    def resched(self, spec):
        """Re-draw the worker schedule / knobs for the kernel calls that follow."""
        self.spec.update(spec)
        if self.world in ("sim-numba", "sim-cuda"):
            self.ctx = W.make_ctx(self.spec, serial=self.spec.get("serial", False))
            self.ctxs.append(self.ctx)
            parfor.set_context(self.ctx)
            if self.world == "sim-cuda" and self.spec.get("tpb"):
                from speckit import core_cuda

                core_cuda.THREADS_PER_BLOCK = int(self.spec["tpb"])
        elif self.world == "real-numba":
            import numba

            numba.set_num_threads(max(1, min(int(self.spec.get("threads") or 1), numba.config.NUMBA_NUM_THREADS)))
            numba.set_parallel_chunksize(int(self.spec.get("chunksize") or 0))
        elif self.world == "numpy":
            self._np.set(self.spec.get("chunk"))
        if self.world in ("real-numba", "numpy"):
            self.ctx = W.make_ctx(self.spec)
            self.ctxs.append(self.ctx)
            parfor.set_context(self.ctx)

    def serial(self):
        """Context manager: temporarily the serial / default schedule (baselines, fresh-analyzer references)."""
        return _Serial(self)

    def absorb(self, out):
        for c in self.ctxs:
            W.absorb(out, c)
        self.ctxs = []
        if self.ctx is not None:
            pass


class _Serial:
    def __init__(self, sess):
        self.s = sess

    def __enter__(self):
        s = self.s
        self.saved = dict(s.spec)
        self.old_ctx = parfor.current()
        ctx = parfor.SimContext(random.Random(0), serial=True, poison=s.spec.get("poison", True))
        parfor.set_context(ctx)
        self.ctx = ctx
        if s.world in ("sim-numba", "sim-cuda"):
            if s.world == "sim-cuda":
                from speckit import core_cuda

                self.old_tpb = core_cuda.THREADS_PER_BLOCK
                core_cuda.THREADS_PER_BLOCK = 4
        # numpy / real-numba: the chunk size / thread configuration legitimately affects rounding
        # (BLAS row count; SIMD lanes of the fastmath kernels), so references are taken under the
        # *current* configuration and compared across configurations separately, within the budget.
        return self

    def __exit__(self, *exc):
        s = self.s
        parfor.set_context(self.old_ctx)
        if s.world in ("sim-numba", "sim-cuda"):
            if s.world == "sim-cuda":
                from speckit import core_cuda

                core_cuda.THREADS_PER_BLOCK = self.old_tpb
        return False


class _NumpyKnob:
    """NumPy world whose chunk knob can be changed while installed."""

    def __init__(self, chunk):
        self.chunk = chunk
        self.old = {}

    def __enter__(self):
        from speckit import analysis

        for k in W.NP_KERNELS:
            self.old[k] = getattr(analysis, k)
        self.set(self.chunk)
        return self

    def set(self, chunk):
        import functools
        from speckit import analysis, core

        self.chunk = chunk
        for k in W.NP_KERNELS:
            if chunk is None:
                setattr(analysis, k, getattr(core, k))
            else:
                setattr(analysis, k, functools.partial(getattr(core, k), _chunk=int(chunk)))

    def __exit__(self, *exc):
        from speckit import analysis

        for k, v in self.old.items():
            setattr(analysis, k, v)
        return False
