"""dsim - a small deterministic simulator with fault injection for SpecKit.

See /verif/DESIGN.md.  Nothing in this package reads a wall clock, the OS
entropy pool or an unordered container inside a scenario: one integer
(VERIF_SEED) decides every scenario, schedule, knob and fault.
"""
