#!/venv/bin/python
"""Confirm an independently seeded change and run the checks against it.

usage: tools/eval_seeded.py <property> <name> <patch.diff> <demo.py> [notes.md] [--checks C01,C14] [--skip-tests]

Works in its own scratch worktree of /repo under /tmp (removed afterwards); never touches /repo's working tree.
Writes /verif/seeded/<property>/<name>/{patch.diff,demo.py,notes.md,meta.json}.
"""
import json
import os
import shutil
import subprocess
import sys
import time

VERIF = "/verif"
PY = "/venv/bin/python"


def sh(cmd, cwd=None, env=None, timeout=3600):
    p = subprocess.run(cmd, shell=True, cwd=cwd, env=env, capture_output=True, text=True, timeout=timeout)
    return p.returncode, (p.stdout + p.stderr)


def main():
    args = [a for a in sys.argv[1:] if not a.startswith("--")]
    opts = [a for a in sys.argv[1:] if a.startswith("--")]
    prop, name, patch, demo = args[:4]
    notes = args[4] if len(args) > 4 else None
    checks = [prop]
    for o in opts:
        if o.startswith("--checks="):
            checks = o.split("=", 1)[1].split(",")
    skip_tests = "--skip-tests" in opts
    tier_args = next((o.split("=", 1)[1] for o in opts if o.startswith("--check-args=")), "--tier quick")
    wt = f"/tmp/evalwt-{prop}-{name}-{os.getpid()}"
    sh(f"git -C /repo worktree add -q --detach {wt} HEAD")
    meta = {"property": prop, "name": name, "repo_head": sh("git -C /repo rev-parse --short HEAD")[1].strip(), "ran": []}
    try:
        env = dict(os.environ, PYTHONPATH=wt, NUMBA_CACHE_DIR=wt + "/.nbcache")
        # demo on the unchanged tree
        rc0, out0 = sh(f"{PY} {demo}", cwd=wt, env=env, timeout=1800)
        meta["demo_unchanged_rc"] = rc0
        rc, out = sh(f"git apply {patch}", cwd=wt)
        if rc != 0:
            # the patch was made against an older HEAD of /repo (before later fix: commits): try a 3-way merge
            rc, out2 = sh(f"git apply -3 {patch}", cwd=wt)
            out += out2
            if rc == 0:
                meta["patch_rebased_3way"] = True
                sh(f"git diff HEAD > {patch}.rebased", cwd=wt)
        if rc != 0:
            meta["error"] = "patch does not apply: " + out[-400:]
            print(json.dumps(meta, indent=1))
            return 1
        rc1, out1 = sh(f"{PY} {demo}", cwd=wt, env=env, timeout=1800)
        meta["demo_changed_rc"] = rc1
        meta["demo_changed_tail"] = out1[-600:]
        meta["ran"].append(f"PYTHONPATH=<tree> {PY} demo.py  -> unchanged rc={rc0}, changed rc={rc1}")
        if not skip_tests:
            t0 = time.time()
            rct, outt = sh(f"{PY} -m pytest -q -p no:cacheprovider --timeout=900 tests", cwd=wt, env=env, timeout=3600)
            tail = outt.strip().splitlines()[-1] if outt.strip() else ""
            meta["tests_rc"] = rct
            meta["tests_tail"] = tail
            meta["ran"].append(f"cd <tree> && {PY} -m pytest -q -p no:cacheprovider --timeout=900 tests -> rc={rct} ({tail}) in {time.time() - t0:.0f}s")
        meta["checks"] = {}
        for c in checks:
            t0 = time.time()
            rcc, outc = sh(f"VERIF_EVIDENCE_DIR={wt}/.evidence VERIF_REPO={wt} ./check {c} {tier_args}", cwd=VERIF, timeout=7200)
            lines = [l for l in outc.splitlines() if l.startswith(("violation", "VIOLATION", "HARNESS", "[" + c))]
            meta["checks"][c] = {"rc": rcc, "wall_s": round(time.time() - t0), "violation_lines": [l[:300] for l in lines if l.startswith("violation")][:6],
                                 "summary": [l for l in lines if l.startswith("[")][-1:] }
            meta["ran"].append(f"VERIF_REPO=<tree> ./check {c} {tier_args} -> rc={rcc}")
        d = f"{VERIF}/seeded/{prop}/{name}"
        os.makedirs(d, exist_ok=True)
        shutil.copy(patch + ".rebased" if meta.get("patch_rebased_3way") and os.path.exists(patch + ".rebased") else patch, d + "/patch.diff")
        shutil.copy(demo, d + "/demo.py")
        if notes and os.path.exists(notes):
            shutil.copy(notes, d + "/notes.md")
        json.dump(meta, open(d + "/meta.json", "w"), indent=1)
        print(json.dumps(meta, indent=1))
    finally:
        sh(f"git -C /repo worktree remove --force {wt}")
        sh("git -C /repo worktree prune")
    return 0


if __name__ == "__main__":
    sys.exit(main())
