"""Execution worlds (DESIGN 2.6): which engine runs the kernels of an analyzer, under which knobs."""
import contextlib
import functools

import numpy as np

NUMBA_KERNELS = ["_stats_win_only_auto", "_stats_win_only_csd", "_stats_detrend0_auto", "_stats_detrend0_csd",
                 "_stats_poly_auto", "_stats_poly_csd"]
NP_KERNELS = [k + "_np" for k in NUMBA_KERNELS]
CUDA_KERNELS = [k + "_cuda" for k in NUMBA_KERNELS]


def prime_compiled():
    """Call every compiled kernel once (JIT cache priming)."""
    from speckit import core

    x = np.linspace(0.0, 1.0, 64) ** 2
    y = np.cos(np.arange(64.0))
    st = np.array([0, 8, 16], dtype=np.int64)
    w = np.hanning(8)
    for order in (1, 2):
        Q = core._build_Q(8, order)
        core._stats_poly_auto(x, st, 8, w, 0.3, Q)
        core._stats_poly_csd(x, y, st, 8, w, 0.3, Q)
    core._stats_win_only_auto(x, st, 8, w, 0.3)
    core._stats_win_only_csd(x, y, st, 8, w, 0.3)
    core._stats_detrend0_auto(x, st, 8, w, 0.3)
    core._stats_detrend0_csd(x, y, st, 8, w, 0.3)
    from speckit import noise

    noise.alpha_noise(10.0, 0.1, 4.0, 1.0, seed=1).get_series(4)


@contextlib.contextmanager
def patched(module, mapping):
    """Rebind module attributes for the duration of a block (the documented seam: analysis imports the kernel names)."""
    old = {}
    try:
        for k, v in mapping.items():
            old[k] = getattr(module, k)
            setattr(module, k, v)
        yield
    finally:
        for k, v in old.items():
            setattr(module, k, v)


@contextlib.contextmanager
def numpy_knob(chunk):
    """NumPy world with the chunk-size knob: every *_np kernel runs with _chunk=chunk (None = shipped default)."""
    from speckit import analysis, core

    if chunk is None:
        yield
        return
    mapping = {k: functools.partial(getattr(core, k), _chunk=int(chunk)) for k in NP_KERNELS}
    with patched(analysis, mapping):
        yield


@contextlib.contextmanager
def real_numba(threads=None, chunksize=None):
    """Real compiled kernels under a seeded (threads, chunksize) configuration; not schedule-controlled."""
    import numba

    old_t = numba.get_num_threads()
    old_c = numba.get_parallel_chunksize()
    try:
        if threads is not None:
            numba.set_num_threads(max(1, min(int(threads), numba.config.NUMBA_NUM_THREADS)))
        if chunksize is not None:
            numba.set_parallel_chunksize(int(chunksize))
        yield
    finally:
        numba.set_num_threads(old_t)
        numba.set_parallel_chunksize(old_c)


# --------------------------------------------------------------------------
# simulated worlds
# --------------------------------------------------------------------------
_SIM = {"kernels": None, "unsupported": {}, "srchash": None}


def sim_kernels():
    """name -> interpreted kernel with outlined prange body (built once per process from the current source)."""
    from speckit import core
    from . import parfor

    if _SIM["kernels"] is None:
        ns = parfor.sim_namespace(core)
        ks = {}
        for name in NUMBA_KERNELS:
            if not hasattr(core, name):
                _SIM["unsupported"][name] = "kernel name no longer exists in speckit.core"
                continue
            try:
                fn = parfor.build_sim_kernel(getattr(core, name), ns, "core." + name)
                if getattr(fn, "__sim_parfor_loops__", 0) == 0:
                    _SIM["unsupported"][name] = "no prange loop (nothing to schedule; runs serially)"
                ks[name] = fn
            except parfor.Unsupported as e:
                _SIM["unsupported"][name] = str(e)
            except SyntaxError as e:  # pragma: no cover
                _SIM["unsupported"][name] = "syntax: " + str(e)
        _SIM["kernels"] = ks
    return _SIM["kernels"]


def sim_unsupported():
    sim_kernels()
    return dict(_SIM["unsupported"])


@contextlib.contextmanager
def sim_numba(ctx):
    """Numba backend with the prange loops executed by simulated workers under the baton scheduler."""
    from speckit import analysis
    from . import parfor

    ks = sim_kernels()
    mapping = {k: v for k, v in ks.items()}
    old = parfor.current()
    parfor.set_context(ctx)
    try:
        with patched(analysis, {k: v for k, v in mapping.items() if hasattr(analysis, k)}):
            yield
    finally:
        parfor.set_context(old)


@contextlib.contextmanager
def sim_cuda(ctx, tpb=None):
    """CUDA backend inside Numba's CPU simulator with seeded thread scheduling and launch geometry."""
    from speckit import core_cuda
    from . import parfor, gpu

    gpu.install()
    old = parfor.current()
    old_tpb = core_cuda.THREADS_PER_BLOCK
    parfor.set_context(ctx)
    try:
        if tpb is not None:
            core_cuda.THREADS_PER_BLOCK = int(tpb)
        yield
    finally:
        core_cuda.THREADS_PER_BLOCK = old_tpb
        parfor.set_context(old)


# --------------------------------------------------------------------------
# kernel-level entry (C01): run one backend statistic function in one world
# --------------------------------------------------------------------------

def kernel_name(mode, order):
    fam = {-1: "_stats_win_only_", 0: "_stats_detrend0_"}.get(order, "_stats_poly_")
    return fam + ("csd" if mode == "csd" else "auto")


def gen_world(rw, kind, K=None, heavy=False):
    """Seeded knobs for one world."""
    if kind == "sim-numba":
        return {"world": kind, "sched": rw.randrange(2 ** 31), "max_workers": rw.choice([2, 3, 4, 6]), "poison": rw.random() < 0.8,
                "policy": rw.choice([None, None, "random", "roundrobin", "starve", "serial_perm", "pct"])}
    if kind == "sim-cuda":
        return {"world": kind, "sched": rw.randrange(2 ** 31), "tpb": rw.choice([1, 2, 3, 4, 4, 7, 32, 256] if heavy else [1, 2, 3, 4, 4, 5, 7, 7, 16]), "poison": rw.random() < 0.8,
                "policy": rw.choice([None, None, "random", "roundrobin", "starve", "serial_perm", "pct"])}
    if kind == "numpy":
        opts = [None, 1, 2, 3, 5]
        if K:
            opts += [max(1, K - 1), K, K + 1]
        return {"world": kind, "chunk": rw.choice(opts), "sched": rw.randrange(2 ** 31)}
    if kind == "real-numba":
        return {"world": kind, "threads": rw.choice([1, 2, 3, 5, 8, 16]), "chunksize": rw.choice([0, 0, 1, 2, 3, 7]), "sched": rw.randrange(2 ** 31)}
    raise ValueError(kind)


def make_ctx(wspec, serial=False):
    import random
    from . import parfor

    return parfor.SimContext(random.Random(wspec.get("sched", 0)), serial=serial, max_workers=wspec.get("max_workers", 6),
                             poison=wspec.get("poison", True), policy=wspec.get("policy"))


def run_kernel(wspec, mode, order, x, y, starts, L, w, omega):
    """Returns ((MXX, MYY, mu_r, mu_i, M2), ctx_or_None).  Exceptions of the code under test propagate."""
    from speckit import core
    from . import parfor

    name = kernel_name(mode, order)
    args = [x] + ([y] if mode == "csd" else []) + [starts, int(L), w, float(omega)]
    if order in (1, 2):
        args.append(core._build_Q(int(L), int(order)))
    world = wspec["world"]
    if world == "real-numba":
        with real_numba(wspec.get("threads"), wspec.get("chunksize")):
            return tuple(float(v) for v in getattr(core, name)(*args)), None
    if world == "numpy":
        kw = {} if wspec.get("chunk") is None else {"_chunk": int(wspec["chunk"])}
        return tuple(float(v) for v in getattr(core, name + "_np")(*args, **kw)), None
    ctx = make_ctx(wspec, serial=wspec.get("serial", False))
    if world == "sim-numba":
        ks = sim_kernels()
        old = parfor.current()
        parfor.set_context(ctx)
        try:
            fn = ks.get(name)
            if fn is None:
                ctx.count("sim_unsupported_fallback")
                res = getattr(core, name)(*args)
            else:
                res = fn(*args)
        finally:
            parfor.set_context(old)
        return tuple(float(v) for v in res), ctx
    if world == "sim-cuda":
        from speckit import core_cuda

        with sim_cuda(ctx, wspec.get("tpb")):
            res = getattr(core_cuda, name + "_cuda")(*args)
        return tuple(float(v) for v in res), ctx
    raise ValueError(world)


@contextlib.contextmanager
def analysis_world(wspec, ctx=None):
    """Context in which SpectrumAnalyzer(backend=backend_of(wspec)) computes in the given world."""
    world = wspec["world"]
    if world in ("real-numba", "numpy"):
        from . import parfor

        ctx = ctx or make_ctx(wspec, serial=wspec.get("serial", False))   # drives the simulated Python thread pool
        old = parfor.current()
        parfor.set_context(ctx)
        try:
            if world == "real-numba":
                with real_numba(wspec.get("threads"), wspec.get("chunksize")):
                    yield ctx
            else:
                with numpy_knob(wspec.get("chunk")):
                    yield ctx
        finally:
            parfor.set_context(old)
    elif world == "sim-numba":
        ctx = ctx or make_ctx(wspec, serial=wspec.get("serial", False))
        with sim_numba(ctx):
            yield ctx
    elif world == "sim-cuda":
        ctx = ctx or make_ctx(wspec, serial=wspec.get("serial", False))
        with sim_cuda(ctx, wspec.get("tpb")):
            yield ctx
    else:
        raise ValueError(world)


def backend_of(wspec):
    return {"real-numba": "numba", "sim-numba": "numba", "numpy": "numpy", "sim-cuda": "cuda"}[wspec["world"]]


def absorb(out, ctx):
    """Fold a simulation context's statistics into a scenario outcome."""
    if ctx is None:
        return
    st = ctx.stats
    out.sim_steps += st.steps
    out.sim_handovers += st.handovers
    for k, v in ctx.counters.items():
        out.count(k, v)
    if st.preempt_in_body:
        out.count("preempt_in_body", st.preempt_in_body)
    if st.preempt_at_rmw:
        out.count("preempt_at_rmw", st.preempt_at_rmw)
    if st.starved:
        out.count("starved_worker", st.starved)
    for k, v in st.policies.items():
        out.count("policy_" + k, v)
    out.observe("sched", st.decisions.hexdigest()[:16], st.steps)
    if st.ndecisions:
        out.extra.setdefault("schedule_digests", []).append(st.decisions.hexdigest()[:12])
    out.extra["commit_orders"] = out.extra.get("commit_orders", 0) + len(ctx.commit_orders)
    tr = out.extra.setdefault("schedule_trace", [])
    if len(tr) < 240 and st.trace:
        tr.extend(st.trace[: 240 - len(tr)])


# --------------------------------------------------------------------------
# concurrent independent callers (Python threads) under the baton scheduler
# --------------------------------------------------------------------------

def run_concurrently(ctx, fns):
    """Run the callables as simulated caller threads: exactly one runs at a time, pre-empted at source lines of
    speckit/core.py (the NumPy kernels and helpers) in an order drawn from ctx's schedule stream.  Returns their results;
    the first exception of a task propagates."""
    from . import parfor, sched

    results = [None] * len(fns)

    def wrap(i):
        def run():
            results[i] = fns[i]()
        return run

    baton = sched.Baton(ctx.rnd, parfor._is_simulated, ctx.stats, ctx.policy)
    old = ctx.baton
    ctx.baton = baton
    try:
        baton.run([wrap(i) for i in range(len(fns))])
    finally:
        ctx.baton = old
    ctx.count("concurrent_callers")
    return results


# --------------------------------------------------------------------------
# injected allocation failure in the NumPy kernels (fault seam: speckit.core._gather_segments)
# --------------------------------------------------------------------------

class AllocFault:
    """One-shot MemoryError at the k-th next segment gather of the NumPy backend (the place where the (K, L) blocks are
    allocated).  On the unchanged library the error simply propagates to the caller; whatever a library does about it,
    results it returns must still be right and the caller's record must stay untouched."""

    def __init__(self):
        self.countdown = None
        self.fired = 0
        self._orig = None

    def __enter__(self):
        from speckit import core

        self._core = core
        self._orig = getattr(core, "_gather_segments", None)
        if self._orig is not None:
            fault = self

            def gather(*a, **k):
                if fault.countdown is not None:
                    fault.countdown -= 1
                    if fault.countdown <= 0:
                        fault.countdown = None
                        fault.fired += 1
                        raise MemoryError("injected: unable to allocate the segment block")
                return fault._orig(*a, **k)

            core._gather_segments = gather
        return self

    def arm(self, k=1):
        self.countdown = int(k)

    def disarm(self):
        self.countdown = None

    def __exit__(self, *exc):
        if self._orig is not None:
            self._core._gather_segments = self._orig
        return False
