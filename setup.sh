#!/bin/sh
# Offline setup: nothing to build; verify the interpreter and the repo import, create scratch dirs.
set -e
cd "$(dirname "$0")"
mkdir -p out .cache evidence
PYTHONPATH=/verif:/repo NUMBA_ENABLE_CUDASIM=1 NUMBA_CACHE_DIR=/verif/.cache/numba-setup /venv/bin/python -c "
import speckit, numpy, scipy, numba, pandas
from speckit import core
assert core._NUMBA_ENABLED
print('setup ok: numba', numba.__version__, 'cudasim', core._CUDA_ENABLED)
"
