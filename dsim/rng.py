"""Seed derivation.  One integer decides everything (DESIGN 2.1)."""
import hashlib
import random

MASK = (1 << 64) - 1


def splitmix64(x: int) -> int:
    x = (x + 0x9E3779B97F4A7C15) & MASK
    z = x
    z = ((z ^ (z >> 30)) * 0xBF58476D1CE4E5B9) & MASK
    z = ((z ^ (z >> 27)) * 0x94D049BB133111EB) & MASK
    return z ^ (z >> 31)


def derive(seed: int, *labels) -> int:
    """Deterministic 63-bit sub-seed from a seed and a tuple of labels."""
    h = hashlib.sha256()
    h.update(str(int(seed)).encode())
    for lab in labels:
        h.update(b"\x00")
        h.update(str(lab).encode())
    return splitmix64(int.from_bytes(h.digest()[:8], "big")) >> 1


def scenario_seed(verif_seed: int, prop: str, index: int) -> int:
    return derive(verif_seed, "scenario", prop, index)


def stream(seed: int, label: str) -> random.Random:
    """Independent PRNG stream: adding a draw to one stream never perturbs another."""
    return random.Random(derive(seed, "stream", label))


def np_seed(seed: int, label: str) -> int:
    return derive(seed, "np", label) & 0xFFFFFFFFFFFF
