"""Baton scheduler (DESIGN 2.2): real threads, exactly one runnable, every hand-over decided by a seeded PRNG.

Pre-emption points are ``sys.settrace`` line events in frames of *simulated* code
(predicate on the code object's filename) plus explicit ``maybe_yield`` calls that
instrumented code makes at split read-modify-writes.
"""
import _thread
import hashlib
import sys
import threading


class _Sem:
    """Binary semaphore on a raw lock (strict ping-pong protocol: every release is matched by one acquire)."""

    __slots__ = ("l",)

    def __init__(self):
        self.l = _thread.allocate_lock()
        self.l.acquire()

    def acquire(self):
        self.l.acquire()

    def release(self):
        try:
            self.l.release()
        except RuntimeError:
            pass

QUANTA = [1, 1, 2, 3, 5, 8, 13, 20, 50, 200, 1000, 10 ** 9]
POLICIES = ["random", "random", "roundrobin", "starve", "serial_perm", "pct"]
STEP_CAP = 20_000_000


class HarnessError(RuntimeError):
    pass


class SimDeadlock(RuntimeError):
    """All remaining simulated threads wait at a barrier that can never complete (divergent __syncthreads)."""


class Task:
    __slots__ = ("idx", "fn", "sem", "state", "exc", "thread", "group", "in_body", "steps", "make_thread", "label")

    def __init__(self, idx, fn, group=0, make_thread=None, label=None):
        self.idx = idx
        self.fn = fn
        self.sem = _Sem()
        self.state = "runnable"   # runnable | barrier | done
        self.exc = None
        self.thread = None
        self.group = group
        self.in_body = False
        self.steps = 0
        self.make_thread = make_thread
        self.label = label


class Stats:
    def __init__(self):
        self.steps = 0
        self.handovers = 0
        self.preempt_in_body = 0
        self.preempt_at_rmw = 0
        self.starved = 0
        self.decisions = hashlib.sha256()
        self.ndecisions = 0
        self.policies = {}
        self.trace = []          # first decisions, human-readable: [run_no, policy, worker, quantum]
        self.runs = 0


class Baton:
    def __init__(self, rnd, is_simulated, stats=None, policy=None):
        self.rnd = rnd
        self.is_simulated = is_simulated
        self.stats = stats or Stats()
        self.policy = policy
        self.sched_sem = _Sem()
        self.tasks = []
        self.cur = None
        self.quantum = 0
        self._code_cache = {}
        self.active = False

    # ---------------------------------------------------------------- worker side
    def _global_trace(self, frame, event, arg):
        if event != "call":
            return None
        code = frame.f_code
        c = self._code_cache.get(code)
        if c is None:
            c = bool(self.is_simulated(code))
            self._code_cache[code] = c
        return self._local_trace if c else None

    def _local_trace(self, frame, event, arg):
        if event == "line":
            st = self.stats
            st.steps += 1
            t = self.cur
            t.steps += 1
            self.quantum -= 1
            if self.quantum <= 0:
                self._yield(t)
            elif st.steps > STEP_CAP:
                raise HarnessError("simulated step cap exceeded")
        return self._local_trace

    def _yield(self, t):
        """Give the baton back to the scheduler and wait to be released again."""
        if t.in_body:
            self.stats.preempt_in_body += 1
        self.sched_sem.release()
        t.sem.acquire()

    def maybe_yield(self, tag="rmw"):
        """Explicit biased pre-emption point (split read-modify-write, first store of a body)."""
        t = self.cur
        if t is None or not self.active or threading.current_thread() is not t.thread:
            return
        if self.rnd.random() < 0.5:
            self.stats.decisions.update(b"y")
            if tag == "rmw":
                self.stats.preempt_at_rmw += 1
            self._yield(t)
        else:
            self.stats.decisions.update(b"n")

    def barrier(self):
        """__syncthreads() of the simulated GPU: wait until every live thread of the group arrived."""
        if not self.active:
            return
        t = self.cur
        t.state = "barrier"
        self.sched_sem.release()
        t.sem.acquire()

    def _thread_main(self, t):
        t.sem.acquire()
        sys.settrace(self._global_trace)
        try:
            t.fn()
        except BaseException as e:  # noqa: BLE001 - reported to the caller of run()
            t.exc = e
        finally:
            sys.settrace(None)
            t.state = "done"
            self.sched_sem.release()

    # ---------------------------------------------------------------- scheduler side
    def run(self, fns, groups=None, make_threads=None, labels=None):
        """Run the callables as simulated threads to completion.  Raises the first task exception."""
        n = len(fns)
        self.tasks = [Task(i, fns[i], groups[i] if groups else 0, make_threads[i] if make_threads else None,
                           labels[i] if labels else None) for i in range(n)]
        if n == 0:
            return
        rnd = self.rnd
        policy = self.policy or rnd.choice(POLICIES)
        st = self.stats
        st.runs += 1
        st.policies[policy] = st.policies.get(policy, 0) + 1
        for t in self.tasks:
            target = (lambda tt=t: self._thread_main(tt))
            if t.make_thread is not None:
                t.thread = t.make_thread(target)
            else:
                t.thread = threading.Thread(target=target, daemon=True)
            t.thread.start()
        self.active = True
        order = list(range(n))
        rnd.shuffle(order)                 # serial_perm order / pct priorities
        prio = {i: p for p, i in enumerate(order)}
        victim = rnd.randrange(n)
        starve_until = None
        change_points = sorted(rnd.randrange(1, 4000) for _ in range(rnd.randrange(1, 4))) if policy == "pct" else []
        rr = rnd.randrange(n)
        rr_q = rnd.choice([1, 2, 3, 5, 8, 20])
        total_at_start = st.steps
        try:
            while True:
                runnable = [t for t in self.tasks if t.state == "runnable"]
                if not runnable:
                    waiting = [t for t in self.tasks if t.state == "barrier"]
                    if not waiting:
                        break
                    # release complete barriers (all live threads of a group have arrived)
                    released = False
                    for g in sorted({t.group for t in waiting}):
                        live = [t for t in self.tasks if t.group == g and t.state != "done"]
                        if live and all(t.state == "barrier" for t in live):
                            for t in live:
                                t.state = "runnable"
                            released = True
                    if not released:
                        raise SimDeadlock("simulated threads wait at a barrier that not all threads reach")
                    continue
                # complete barriers may also be released while others still run
                for g in sorted({t.group for t in self.tasks if t.state == "barrier"}):
                    live = [t for t in self.tasks if t.group == g and t.state != "done"]
                    if live and all(t.state == "barrier" for t in live):
                        for t in live:
                            t.state = "runnable"
                runnable = [t for t in self.tasks if t.state == "runnable"]
                if policy == "random":
                    t = runnable[rnd.randrange(len(runnable))]
                    q = QUANTA[rnd.randrange(len(QUANTA))]
                elif policy == "roundrobin":
                    rr = (rr + 1) % n
                    while self.tasks[rr].state != "runnable":
                        rr = (rr + 1) % n
                    t = self.tasks[rr]
                    q = rr_q
                elif policy == "starve":
                    others = [x for x in runnable if x.idx != victim]
                    if others:
                        t = others[rnd.randrange(len(others))]
                        if self.tasks[victim].state == "runnable":
                            st.starved += 1
                    else:
                        t = runnable[0]
                    q = QUANTA[rnd.randrange(len(QUANTA))]
                elif policy == "serial_perm":
                    t = min(runnable, key=lambda x: prio[x.idx])
                    q = 10 ** 9
                else:  # pct
                    t = min(runnable, key=lambda x: prio[x.idx])
                    done_steps = st.steps - total_at_start
                    nxt = [c for c in change_points if c > done_steps]
                    q = (nxt[0] - done_steps) if nxt else 10 ** 9
                    if nxt:
                        # at the change point the running task drops to the lowest priority
                        prio[t.idx] = max(prio.values()) + 1
                st.decisions.update(b"%d:%d;" % (t.idx, q))
                st.ndecisions += 1
                if len(st.trace) < 120:
                    st.trace.append([st.runs, policy, t.idx, q if q < 10 ** 8 else "inf"])
                st.handovers += 1
                self.cur = t
                self.quantum = q
                t.sem.release()
                self.sched_sem.acquire()
        finally:
            self.active = False
            self.cur = None
            # never leave parked threads behind: abandoned tasks get released to finish unscheduled
            for t in self.tasks:
                if t.state != "done":
                    self.quantum = 10 ** 12
                    self.cur = t
                    t.state = "runnable"
                    t.sem.release()
            for t in self.tasks:
                t.thread.join(timeout=30)
        for t in self.tasks:
            if isinstance(t.exc, HarnessError):
                raise t.exc
        for t in self.tasks:
            if t.exc is not None:
                raise t.exc
