"""C14 - results do not depend on thread scheduling or on call history (core simulation target).

One scenario = one analysis configuration in one world + a history of plan / compute / compute_single_bin calls on
one analyzer, re-drawn worker schedules between kernel calls, attribute access on any live result in seeded orders,
an interfering second analyzer with another configuration, all under a simulated clock.  Oracle: self-consistency
only - serial-schedule fresh-analyzer baselines, bit-exact within one world.
"""
import copy

import numpy as np

from dsim import rng as R
from dsim import scenario as SC
from dsim import shrink as S
from dsim import session as SS
from dsim import worlds as W
from dsim import clock as CK
from dsim import refmodel as RM

PROPERTY = "C14"
RULE = (
    "one scenario = (record, configuration incl. all four schedulers / force_target_nf / band / orders / windows) in one "
    "world (sim-numba 1-6 simulated prange workers; sim-cuda simulated grid; real compiled numba with threads 1..16 and "
    "chunk sizes; numpy chunk knob) + a history of 5-40 operations (plan, compute, compute_single_bin on/off grid, "
    "re-drawn schedule, attribute access in seeded permutations on any live result, to_dataframe/get_measurement/get_rms, "
    "an interfering second analyzer) under a simulated clock with skew/freeze/jumps; non-trivial = >=2 computes or one "
    "compute + one single-bin call, and (>=2 simulated workers with a pre-emption inside a body, or >=2 real thread "
    "configurations, or >=2 attribute access orders); distinct = scenario digest"
)
COMPONENTS = {
    "real": ["SpectrumAnalyzer.plan/compute/compute_single_bin, plan cache, result attribute cache", "kernel source (interpreted, outlined) in sim-numba",
             "CUDA kernel + host wrapper source in sim-cuda", "compiled kernels with real Numba threads in real-numba", "NumPy kernels"],
    "simulated": ["prange worker distribution and interleaving", "GPU thread scheduler / launch geometry / poisoned device memory",
                  "time.perf_counter", "call history, attribute access order"],
    "stub": ["GPU hardware (Numba CUDASIM)"],
}
ASSUMPTIONS = [
    "self-consistency oracle only: equality with a fresh-analyzer serial-schedule baseline of the same world (never the reference DFT)",
    "NumPy world: bit-exact for equal chunk size; across chunk sizes raw statistics are compared within the rounding budget (BLAS summation order legitimately depends on the chunking)",
    "real-numba world: thread timing is the OS's (observation); assignment of iterations is Numba's",
    "concurrent caller threads on one analyzer, object identity and user mutation of returned arrays are not demanded",
]

WORLD_MIX = ["sim-numba"] * 7 + ["sim-cuda"] * 3 + ["real-numba"] * 7 + ["numpy"] * 3
ATTRS = SS.ALL_ATTRS


def budget(tier):
    if tier == "thorough":
        # real-thread cross-check in fresh processes per threading layer / thread-pool size (DESIGN 5, C14)
        return {"n": 200000, "wall_s": 1500, "workers": 16, "selftest": 24,
                "env_variants": [{}, {"NUMBA_THREADING_LAYER": "omp"}, {"NUMBA_NUM_THREADS": "5"},
                                 {"NUMBA_THREADING_LAYER": "omp", "NUMBA_NUM_THREADS": "7"}]}
    return {"n": 1600, "wall_s": 80, "workers": 16, "selftest": 16}


def prime():
    W.prime_compiled()


# --------------------------------------------------------------------------

def generate(seed, tier):
    rw = R.stream(seed, "workload")
    rf = R.stream(seed, "faults")
    world = rw.choice(WORLD_MIX)
    sim = world.startswith("sim")
    N = rw.choice([16, 24, 33, 48, 64, 100]) if sim else rw.choice([16, 33, 64, 100, 150, 200, 300])
    channels = rw.choice([1, 2, 2])
    data = SC.gen_data_spec(rw, N, channels)
    backend = W.backend_of({"world": world})
    cfg = SC.gen_config(rw, N, backends=(backend,), allow_custom=True)
    cfg["layout"] = rw.choice(SC.LAYOUTS)      # how a two-channel record is handed over (2xN, its transposed view, a list of rows)
    if sim:
        if cfg.get("force_target_nf"):
            cfg["force_target_nf"] = False
        cfg["Jdes"] = min(cfg["Jdes"], 10)
        if cfg["scheduler"] == "custom":
            cfg["custom_plan"] = SC.gen_custom_plan(rw, N, cfg["fs"], max_bins=6, Lcap=48, sorted_f=rw.random() < 0.7)
    if world == "real-numba" and rw.random() < 0.25:
        cfg["backend"] = "auto"          # the default: the library picks the backend per bin (K <= 1000 here: never the GPU)
    fault_window = cfg["win"] in SC.WINDOWS and rw.random() < 0.35
    bigplan = (not sim) and rw.random() < 0.07
    if bigplan:
        N = rw.choice([1500, 3000])
        data = SC.gen_data_spec(rw, N, channels)
        SC.make_big_plan(rw, cfg)
        cfg["backend"] = backend
    # interfering second analyzer: same data, different window / order / psll
    other = dict(cfg)
    other["win"] = rw.choice([w for w in ["hann", "kaiser", "ones", "signed"] if w != cfg["win"]])
    other["order"] = rw.choice([o for o in (-1, 0, 1, 2) if o != cfg["order"]])
    other["psll"] = rw.choice([60, 90, 170])
    other["band"] = None
    other["force_target_nf"] = False
    if channels == 2 and rw.random() < 0.4:
        other = dict(cfg, band=None, force_target_nf=False, first_channel_only=True)     # same plan, auto mode, same process
    if rw.random() < 0.4:
        # identical scheduling parameters, but restricted to a band (shared scheduler output edited in place)
        other = dict(cfg, force_target_nf=False, band=[round(0.1 * cfg["fs"], 6), round(0.3 * cfg["fs"], 6)])
    nops = rw.randrange(5, 16) if sim else (rw.randrange(4, 10) if bigplan else rw.randrange(5, 41))
    ops = []
    ncomp = 0
    nres = 0
    for i in range(nops):
        r = rw.random()
        if r < 0.08:
            ops.append(["plan"])
        elif r < (0.30 if sim else 0.25) or (i == 0 and r < 0.6):
            if sim and ncomp >= 3:
                ops.append(["plan"])
                continue
            ops.append(["compute"]); ncomp += 1; nres += 1
        elif r < 0.42:
            fsel = ["grid", rw.randrange(0, 64)] if rw.random() < 0.5 else ["free", round(rw.uniform(0.0, 0.5), 5)]
            if rw.random() < 0.08:
                fsel = ["free", rw.choice([0.0, 0.5])]          # DC / Nyquist
            if data.get("line_f") is not None and rw.random() < 0.5:
                fsel = ["free", data["line_f"]]        # right on the record's spectral line (tiny scatter between segments)
            lsel = rw.choice([["planL", rw.randrange(0, 64)], ["L", rw.randrange(1, min(N, 48 if sim else N) + 1)],
                              ["fres", rw.randrange(1, min(N, 48 if sim else N) + 1)],
                              ["fres", round(rw.uniform(1.0, min(N, 48 if sim else N)), 3)]])   # fs/fres not an integer
            ops.append(["single", fsel, lsel]); nres += 1
        elif r < 0.55:
            ops.append(["resched", W.gen_world(rf, world, rw.choice([2, 5, 12]))])
        elif r < 0.60:
            ops.append(["other"])
        elif r < 0.63:
            ops.append(["refill", rw.randrange(2 ** 31), rw.choice(["noise", "randwalk", "sine+noise"])])
        elif r < 0.66:
            ops.append(["wrapper", rw.choice(["compute_spectrum", "lpsd"])]); nres += 1
        elif r < 0.70 and world == "numpy" and not bigplan:
            ops.append(["concurrent", rw.randrange(2 ** 31)]); ncomp += 1; nres += 1
        elif r < 0.72 and fault_window:
            # fault injection: the user's window callable fails on its k-th next call, inside whatever operation follows
            ops.append(["arm_fault", rw.choice([1, 1, 2, 3])])
        elif r < 0.80 and nres:
            ops.append(["attr", rw.randrange(nres), rw.choice(ATTRS)])
        elif r < 0.90 and nres:
            ops.append(["attrs_perm", rw.randrange(nres), rw.randrange(2 ** 31)])
        elif r < 0.94 and nres:
            ops.append(["df", rw.randrange(nres)])
        elif r < 0.97 and nres:
            ops.append(["meas", rw.randrange(nres), rw.choice(["Gxx", "ENBW", "XX"]), round(rw.random(), 4)])
        elif nres:
            ops.append(["rms", rw.randrange(nres)])
        else:
            ops.append(["plan"])
    return {"world": W.gen_world(rf, world, 6), "data": data, "cfg": cfg, "other": other, "ops": ops, "fault_window": fault_window,
            "clock": CK.gen_clock(R.stream(seed, "clock"), p_none=0.2)}


# --------------------------------------------------------------------------

def _strip_t(d):
    return {k: v for k, v in d.items() if k != "compute_t"}


def _all_values(res, order):
    """Read attributes in the given order; returns name -> snapshot (or exception marker)."""
    vals = {}
    for n in order:
        try:
            vals[n] = SS.snap(getattr(res, n))
        except Exception as e:  # noqa: BLE001
            vals[n] = ("<raised>", type(e).__name__)
    return vals


def _numpy_budget(L, xmax):
    S = 5.2 * float(L) * float(xmax)
    b = 8.0 * RM.EPS * max(float(L), 8.0) ** 2
    return b * S * S + 1e-300, b * S ** 4 + 1e-300


def execute(sc, out):
    data = SC.make_record(sc["data"])
    cfg = sc["cfg"]
    world = sc["world"]["world"]
    clock = CK.SimClock(sc.get("clock"))
    base_clock = CK.SimClock(None)
    xmax = float(np.max(np.abs(data))) if data.size else 0.0

    sess = SS.WorldSession(sc["world"])
    with sess:
        # ---------------- baseline: fresh analyzer, serial schedule, plain clock --------------------
        def fresh_compute():
            with sess.serial(), base_clock.installed():
                an = SC.build_analyzer(data.copy(), cfg)
                r = an.compute()
                return an, r

        try:
            an0, base = fresh_compute()
        except Exception as e:  # plan()/scheduler failures belong to C02-C04 ...
            out.discarded = "plan_failure"
            out.count("discarded_plan_failure")
            out.extra["discard_reason"] = f"{type(e).__name__}: {e}"[:200]
            # ... but "repeated on the same analyzer" also covers a call that fails: the retry must fail the same way,
            # it must not silently succeed from half-built cached state
            try:
                an_r = SC.build_analyzer(data.copy(), cfg)
            except Exception:
                return
            outcomes = []
            for attempt in range(3):
                try:
                    with base_clock.installed():
                        if attempt == 1 and sc["ops"] and sc["ops"][0][0] == "single":
                            try:
                                an_r.compute_single_bin(0.1 * cfg["fs"], L=min(8, data.shape[-1]))
                            except Exception:
                                pass
                        r_ = an_r.compute() if attempt != 1 else an_r.plan()
                    outcomes.append(("ok", len(r_["f"]) if isinstance(r_, dict) else len(r_.f)))
                except Exception as e2:
                    outcomes.append(("raised", type(e2).__name__))
            out.count("retry_after_failed_call")
            if any(o[0] == "ok" for o in outcomes) and any(o[0] == "raised" for o in outcomes):
                out.discarded = None
                out.violate("failed_call_changes_on_retry", "op=plan/compute",
                            f"a fresh analyzer fails ({out.extra['discard_reason']}), but repeated calls on one analyzer gave {outcomes}")
            return
        nf = len(base.f)
        base_raw = SS.raw_fields(base)
        base_vals = _all_values(base, ATTRS)
        try:
            base_plan = SS.snapshot_plan(an0.plan())
        except Exception as e:
            out.violate("exception", "op=plan", f"plan() right after a successful compute() on a fresh analyzer raised {type(e).__name__}: {str(e)[:200]}")
            return
        def knob_key():
            if world == "numpy":
                return ("chunk", sess.spec.get("chunk"))
            if world == "real-numba":
                return ("threads", sess.spec.get("threads"), sess.spec.get("chunksize"))
            return None

        key0 = knob_key()
        baselines = {key0: (base_raw, base_vals)}
        out.observe([base_raw[k] for k in SS.RAW_CMP])

        def cross_knob_check(raw, key):
            """Same analysis under another thread configuration / chunking.  Two valid evaluation orders of the same
            arithmetic may differ by the rounding budget of the recurrence (R1, computed per bin from the detrended
            magnitudes) - beyond twice that budget it is a violation; plan and window sums must agree exactly."""
            ulp = False
            xs = (data[0], data[1]) if data.ndim == 2 else (data, None)
            for j in range(nf):
                a4 = [raw[nm][j] for nm in ("XX", "YY", "XY", "M2")]
                b4 = [base_raw[nm][j] for nm in ("XX", "YY", "XY", "M2")]
                if all((a == b) or (a != a and b != b) for a, b in zip(a4, b4)):
                    continue
                Lj = int(raw["L"][j])
                wj = SC.reference_window(cfg["win"], cfg["psll"], Lj)
                RM.ref_stats(xs[0], xs[1], np.asarray(raw["D"][j]), Lj, wj, 2 * np.pi * float(raw["f"][j]) / cfg["fs"], cfg["order"])
                tXX, tYY, tmu, _, tM2 = RM.ref_stats.last_tols
                for nm, a, b, tol in zip(("XX", "YY", "XY", "M2"), a4, b4, (tXX, tYY, tmu, tM2)):
                    if a == b or (a != a and b != b):
                        continue
                    if not abs(a - b) <= 2.0 * tol:
                        out.violate("depends_on_thread_config" if world == "real-numba" else "depends_on_chunking",
                                    f"world={world} field={nm}", f"bin {j} (L={Lj}, K={len(raw['D'][j])}): {key} gives {a!r}, {key0} gives {b!r} (rounding budget {tol:.2e})")
                    else:
                        ulp = True
            for nm in ("f", "L", "K", "navg", "D", "S2", "S12"):
                if not SS.eq(raw[nm], base_raw[nm]):
                    out.violate("depends_on_thread_config" if world == "real-numba" else "depends_on_chunking",
                                f"world={world} field={nm}", "plan / window-sum field differs between configurations")
            if ulp and world == "real-numba":
                out.violate("ulp_level_dependence_on_thread_config", "world=real-numba",
                            f"compiled kernels: same analysis under {key} and {key0} differs in the last bits (within the rounding budget)")
                out.count("real_numba_ulp_difference")
            out.count("np_chunk_changed" if world == "numpy" else "thread_config_baseline")

        def baseline_for_now():
            key = knob_key()
            if key not in baselines:
                _, r = fresh_compute()
                raw = SS.raw_fields(r)
                baselines[key] = (raw, _all_values(r, ATTRS))
                cross_knob_check(raw, key)
            return baselines[key]

        # ---------------- the history on ONE analyzer ------------------------------------------------
        buf = data.copy()        # the caller's buffer of the history (may be aliased by analyzers; refilled in place by "refill")
        fwin = SC.FaultyWindow(cfg["win"]) if (sc.get("fault_window") and cfg["win"] in SC.WINDOWS) else None
        with clock.installed():
            an = SC.build_analyzer(buf, cfg, fwin)
            other = None
        results = []          # (kind, result, expected_raw, expected_vals)
        observed = {}         # (ri, name) -> first observed snapshot
        plan_snap = None
        orders_seen = set()
        thread_cfgs = {(sc["world"].get("threads"), sc["world"].get("chunksize"))}
        ncompute = nsingle = 0
        prev_kind = None
        fault_fired = False

        def check_plan(p, where):
            nonlocal plan_snap
            if plan_snap is None:
                plan_snap = SS.snapshot_plan(p)
                d = SS.plan_equal(p, base_plan)
                if d is not None:
                    out.violate("plan_differs_from_fresh", f"key={d.split(' ')[0]}", f"{where}: plan of the history analyzer differs from a fresh analyzer's plan in '{d}'")
            else:
                d = SS.plan_equal(p, plan_snap)
                if d is not None:
                    out.violate("cached_plan_changed", f"key={d.split(' ')[0]}", f"{where}: plan() no longer equals its first snapshot in '{d}'")

        def record_access(ri, name, v):
            kind, res, eraw, evals = results[ri]
            exp = evals.get(name)
            if isinstance(exp, tuple) and exp and exp[0] == "<raised>":
                return
            if isinstance(v, tuple) and v and v[0] == "<raised>":
                out.violate("exception", f"getattr:{name}", f"result #{ri} ({kind}): access raised {v[1]} although a fresh result gives a value")
                return
            if not SS.eq(v, exp):
                out.violate("attr_depends_on_history", name, f"result #{ri} ({kind}): {name} differs from the fresh-result value (accessed after {len([k for k in observed if k[0] == ri])} other names)")
            key = (ri, name)
            if key in observed:
                if not SS.eq(v, observed[key]):
                    out.violate("cached_attr_changed", name, f"result #{ri}: second access to {name} returned a different value")
            else:
                observed[key] = SS.snap(v)

        for op in sc["ops"]:
            kind = op[0]
            out.sim_steps += 1
            try:
                with clock.installed():
                    if kind == "plan":
                        p = an.plan()
                        check_plan(p, "plan()")
                        out.count("plan_before_compute" if ncompute == 0 else "plan_after_compute")
                    elif kind == "compute":
                        r = an.compute()
                        ncompute += 1
                        eraw, evals = baseline_for_now()
                        raw = SS.raw_fields(r)
                        d = SS.diff_fields(raw, eraw, SS.RAW_CMP)
                        if d is not None:
                            out.violate("compute_differs_from_baseline", f"world={world} field={d}",
                                        f"compute #{ncompute} on the same analyzer differs from the fresh serial baseline in {d} (after {prev_kind})")
                        out.observe([raw[k] for k in SS.RAW_CMP])
                        results.append(("compute", r, eraw, evals))
                        check_plan(an.plan(), "after compute")
                        if prev_kind == "single":
                            out.count("single_bin_between_computes" if ncompute > 1 else "compute_after_single")
                        if cfg.get("force_target_nf"):
                            out.count("forced_nf")
                    elif kind == "concurrent":
                        # this analyzer's compute() interleaved with an independent caller analysing another record
                        rec2 = SC.make_record(dict(sc["data"], rng=op[1], recipe="noise"))
                        an2 = SC.build_analyzer(rec2, dict(cfg, band=None, force_target_nf=False))
                        try:
                            an2.plan()
                        except Exception:
                            continue
                        r, _r2 = W.run_concurrently(sess.ctx, [an.compute, an2.compute])
                        ncompute += 1
                        eraw, evals = baseline_for_now()
                        raw = SS.raw_fields(r)
                        d = SS.diff_fields(raw, eraw, SS.RAW_CMP)
                        if d is not None:
                            out.violate("compute_differs_from_baseline", f"world={world} field={d}",
                                        f"compute() interleaved with an independent caller's compute() on another record differs from the fresh serial baseline in {d}")
                        results.append(("compute", r, eraw, evals))
                        out.count("two_concurrent_callers")
                    elif kind == "wrapper":
                        import speckit as _sk

                        r = getattr(_sk, op[1])(buf, cfg["fs"], **SC.analyzer_kwargs(cfg))
                        eraw, evals = baseline_for_now()
                        raw = SS.raw_fields(r)
                        d = SS.diff_fields(raw, eraw, SS.RAW_CMP)
                        if d is not None:
                            out.violate("compute_differs_from_baseline", f"world={world} field={d}",
                                        f"speckit.{op[1]}(data, fs, ...) in the middle of the history differs from the fresh serial baseline in {d}")
                        results.append(("compute", r, eraw, evals))
                        out.count("module_level_wrapper")
                    elif kind == "single":
                        f, kw = _resolve_single(op, base_raw, cfg, data)
                        if f is None:
                            continue
                        r = an.compute_single_bin(f, **kw)
                        nsingle += 1
                        with sess.serial(), base_clock.installed():
                            an_f = SC.build_analyzer(data.copy(), cfg)
                            rf_ = an_f.compute_single_bin(f, **kw)
                        eraw = SS.raw_fields(rf_)
                        evals = _all_values(rf_, ATTRS)
                        raw = SS.raw_fields(r)
                        if world == "real-numba" and knob_key() != key0:
                            _single_cross_config(sess, sc["world"], data, cfg, f, kw, raw, out, knob_key(), key0, base_clock)
                        d = SS.diff_fields(raw, eraw, SS.RAW_CMP)
                        if d is not None:
                            out.violate("single_bin_differs_from_fresh", f"world={world} field={d}",
                                        f"compute_single_bin({f!r}, {kw}) after {ncompute} computes differs from the same call on a fresh analyzer in {d}")
                        out.observe([raw[k] for k in SS.RAW_CMP])
                        results.append(("single", r, eraw, evals))
                        if plan_snap is not None:
                            check_plan(an.plan(), "after compute_single_bin")
                    elif kind == "arm_fault":
                        if fwin is not None:
                            fwin.arm(op[1])
                            out.count("window_fault_armed")
                    elif kind == "resched":
                        sess.resched(op[1])
                        if world == "real-numba":
                            thread_cfgs.add((op[1].get("threads"), op[1].get("chunksize")))
                            out.count("threads_changed")
                        out.count("resched")
                    elif kind == "refill":
                        # the caller overwrites the SAME buffer in place and starts over with a new analyzer on it;
                        # everything computed from now on must be that of a fresh analysis of the new content
                        spec2 = dict(sc["data"], rng=op[1], recipe=op[2])
                        newrec = SC.make_record(spec2)
                        buf[...] = newrec
                        data = newrec.copy()
                        xmax = float(np.max(np.abs(data))) if data.size else 0.0
                        try:
                            an0, base = fresh_compute()
                        except Exception:
                            break
                        base_raw = SS.raw_fields(base)
                        base_vals = _all_values(base, ATTRS)
                        try:
                            base_plan = SS.snapshot_plan(an0.plan())
                        except Exception:
                            break
                        nf = len(base.f)
                        key0 = knob_key()
                        baselines.clear()
                        baselines[key0] = (base_raw, base_vals)
                        plan_snap = None
                        an = SC.build_analyzer(buf, cfg, fwin)
                        other = None
                        out.count("buffer_refilled_in_place")
                    elif kind == "other":
                        if other is None:
                            o_data = np.array(buf[0], copy=True) if (sc["other"].get("first_channel_only") and buf.ndim == 2) else buf
                            other = SC.build_analyzer(o_data, sc["other"])
                        try:
                            other.compute()
                            out.count("other_analyzer_compute")
                        except Exception:
                            out.count("other_analyzer_failed")
                    elif kind == "attr":
                        ri = op[1]
                        if ri < len(results):
                            v = _all_values(results[ri][1], [op[2]])[op[2]]
                            record_access(ri, op[2], v)
                            out.count("attr_access")
                    elif kind == "attrs_perm":
                        ri = op[1]
                        if ri < len(results):
                            names = list(ATTRS)
                            R.random.Random(op[2]).shuffle(names)
                            orders_seen.add(op[2])
                            vals = _all_values(results[ri][1], names)
                            for n in names:
                                record_access(ri, n, vals[n])
                            out.count("attrs_permuted_sweep")
                    elif kind == "df":
                        ri = op[1]
                        if ri < len(results):
                            results[ri][1].to_dataframe()
                            orders_seen.add("df")
                            out.count("to_dataframe")
                    elif kind == "meas":
                        ri = op[1]
                        if ri < len(results):
                            res = results[ri][1]
                            fq = float(res.f[0] + op[3] * (res.f[-1] - res.f[0]))
                            res.get_measurement(fq, op[2])
                    elif kind == "rms":
                        ri = op[1]
                        if ri < len(results) and sc["data"]["channels"] == 1:
                            results[ri][1].get_rms()
                            orders_seen.add("rms")
            except SC.InjectedFault:
                out.count("injected_window_fault_fired_in_" + kind)
                fault_fired = True
            except Exception as e:
                from dsim.sched import HarnessError

                if isinstance(e, HarnessError):
                    raise
                if kind in ("df", "meas", "rms"):
                    out.count("export_raised_ignored")  # exports are C20's business
                else:
                    out.violate("exception", f"op={kind}", f"{kind} raised {type(e).__name__}: {str(e)[:200]} (a fresh analyzer computes fine)")
            if fwin is not None and kind != "arm_fault":
                fwin.disarm()
            prev_kind = kind if kind in ("plan", "compute", "single", "other") else prev_kind

        # ---------------- end of history: nothing obtained earlier may have changed ------------------
        for ri, (kind, res, eraw, evals) in enumerate(results):
            raw = SS.raw_fields(res)
            d = SS.diff_fields(raw, eraw, SS.RAW_CMP)
            if d is not None:
                out.violate("earlier_result_changed", f"field={d}", f"result #{ri} ({kind}) no longer equals its baseline in {d} at the end of the history")
            vals = _all_values(res, ATTRS)
            for n in ATTRS:
                record_access(ri, n, vals[n])
        if plan_snap is not None:
            try:
                check_plan(an.plan(), "end of history")
            except Exception as e:
                from dsim.sched import HarnessError

                if isinstance(e, HarnessError):
                    raise
                out.violate("exception", "op=plan", f"plan() at the end of the history raised {type(e).__name__}: {str(e)[:200]} (it succeeded earlier on this analyzer)")
    sess.absorb(out)
    out.sim_time_s += clock.elapsed()
    for k, v in clock.fired.items():
        out.count(k, v)
    out.count("world_" + world)
    multi = (out.counters.get("preempt_in_body", 0) > 0) or len(thread_cfgs) >= 2 or len(orders_seen) >= 2 or out.counters.get("np_chunk_changed", 0) > 0
    out.nontrivial = bool((ncompute >= 2 or (ncompute >= 1 and nsingle >= 1)) and multi)
    out.summary = {"world": world, "nf": nf, "ops": [o[0] for o in sc["ops"]], "computes": ncompute, "singles": nsingle}


def _single_cross_config(sess, wspec0, data, cfg, f, kw, raw, out, key, key0, base_clock):
    """The same single-bin request under the scenario's first thread configuration: beyond the rounding budget of the
    recurrence the two must not differ (within it: the recorded ulp-level finding)."""
    import numba

    old = (numba.get_num_threads(), numba.get_parallel_chunksize())
    try:
        numba.set_num_threads(max(1, min(int(wspec0.get("threads") or 1), numba.config.NUMBA_NUM_THREADS)))
        numba.set_parallel_chunksize(int(wspec0.get("chunksize") or 0))
        with base_clock.installed():
            r0 = SC.build_analyzer(data.copy(), cfg).compute_single_bin(f, **kw)
    finally:
        numba.set_num_threads(old[0])
        numba.set_parallel_chunksize(old[1])
    raw0 = SS.raw_fields(r0)
    a4 = [raw[nm][0] for nm in ("XX", "YY", "XY", "M2")]
    b4 = [raw0[nm][0] for nm in ("XX", "YY", "XY", "M2")]
    if all((a == b) or (a != a and b != b) for a, b in zip(a4, b4)):
        return
    xs = (data[0], data[1]) if data.ndim == 2 else (data, None)
    Lj = int(raw["L"][0])
    wj = SC.reference_window(cfg["win"], cfg["psll"], Lj)
    RM.ref_stats(xs[0], xs[1], np.asarray(raw["D"][0]), Lj, wj, 2 * np.pi * float(raw["f"][0]) / cfg["fs"], cfg["order"])
    tXX, tYY, tmu, _, tM2 = RM.ref_stats.last_tols
    ulp = False
    for nm, a, b, tol in zip(("XX", "YY", "XY", "M2"), a4, b4, (tXX, tYY, tmu, tM2)):
        if a == b or (a != a and b != b):
            continue
        if not abs(a - b) <= 2.0 * tol:
            out.violate("depends_on_thread_config", f"world=real-numba field={nm}",
                        f"compute_single_bin({f!r}, {kw}) (L={Lj}, K={len(raw['D'][0])}): {key} gives {a!r}, {key0} gives {b!r} (rounding budget {tol:.2e})")
        else:
            ulp = True
    if ulp:
        out.violate("ulp_level_dependence_on_thread_config", "world=real-numba",
                    f"compiled kernels: same single-bin analysis under {key} and {key0} differs in the last bits (within the rounding budget)")
    out.count("single_bin_cross_config")


def _resolve_single(op, base_raw, cfg, data):
    _, fsel, lsel = op
    nf = len(base_raw["f"])
    N = data.shape[-1]
    fs = cfg["fs"]
    if fsel[0] == "grid":
        f = float(base_raw["f"][fsel[1] % nf])
    else:
        f = float(fsel[1] * fs)
    if lsel[0] == "planL":
        kw = {"L": int(base_raw["L"][lsel[1] % nf])}
    elif lsel[0] == "L":
        kw = {"L": int(min(lsel[1], N))}
    else:
        kw = {"fres": fs / float(min(lsel[1], N))}
    return f, kw


# --------------------------------------------------------------------------

def size(sc):
    return len(sc["ops"])


def shrink_candidates(sc):
    yield from S.drop_chunks(sc, "ops")
    if sc.get("clock"):
        c = copy.deepcopy(sc); c["clock"] = None; yield c
    if sc["world"]["world"] in ("sim-numba", "sim-cuda") and not sc["world"].get("serial"):
        c = copy.deepcopy(sc); c["world"]["serial"] = True
        for o in c["ops"]:
            if o[0] == "resched":
                o[1]["serial"] = True
        yield c
    if sc["cfg"].get("band") is not None:
        c = copy.deepcopy(sc); c["cfg"]["band"] = None; yield c
    if sc["cfg"].get("force_target_nf"):
        c = copy.deepcopy(sc); c["cfg"]["force_target_nf"] = False; yield c
    for N in (16, 24, 33, 64):
        if N < sc["data"]["N"] and sc["cfg"]["scheduler"] != "custom":
            c = copy.deepcopy(sc); c["data"]["N"] = N
            c["cfg"]["Lmin"] = min(c["cfg"]["Lmin"], N // 2)
            yield c
    if sc["data"]["recipe"] != "noise":
        c = copy.deepcopy(sc); c["data"]["recipe"] = "noise"; yield c
    if sc["data"]["channels"] == 2:
        c = copy.deepcopy(sc); c["data"]["channels"] = 1; yield c
    for k, v in (("order", 0), ("win", "hann"), ("olap", 0.5), ("Jdes", 5)):
        if sc["cfg"].get(k) != v:
            c = copy.deepcopy(sc); c["cfg"][k] = v; yield c
