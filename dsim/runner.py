"""Parent side of a check: spawn seeded workers, aggregate, minimise, report.

Exit codes: 0 = property held on everything explored; 1 = violation (a line
``VIOLATION property=<id> replay=<path>`` was printed); 2 = harness error
(dead worker, watchdog, determinism self-test mismatch) - never 0 on a timeout.
"""
import glob
import hashlib
import json
import os
import shutil
import subprocess
import sys
import time

VERIF = os.path.dirname(os.path.dirname(os.path.abspath(__file__)))
REPO = os.environ.get("VERIF_REPO", "/repo")
PY = os.environ.get("VERIF_PYTHON", "/venv/bin/python")
WORKER_MAIN = os.path.join(VERIF, "dsim_worker_main.py")
OUT = os.path.join(VERIF, "out")
KNOWN = os.path.join(VERIF, "known_findings.txt")


def log(*a):
    print(*a, flush=True)


# --------------------------------------------------------------------------
# environment of the simulated world
# --------------------------------------------------------------------------

def source_hash():
    h = hashlib.sha256()
    for p in sorted(glob.glob(os.path.join(REPO, "speckit", "*.py"))):
        h.update(p.encode())
        with open(p, "rb") as f:
            h.update(f.read())
    return h.hexdigest()[:16]


def worker_env(hashseed="0", extra=None):
    env = dict(os.environ)
    cache_root = os.path.join(VERIF, ".cache")
    os.makedirs(cache_root, exist_ok=True)
    cdir = os.path.join(cache_root, "numba-" + source_hash())
    # keep the cache directory count bounded (disk is limited)
    olds = sorted(glob.glob(os.path.join(cache_root, "numba-*")), key=os.path.getmtime)
    for d in olds[:-6]:
        if d != cdir:
            shutil.rmtree(d, ignore_errors=True)
    os.makedirs(cdir, exist_ok=True)
    env.update(
        PYTHONHASHSEED=str(hashseed),
        PYTHONPATH=VERIF + os.pathsep + REPO,
        PYTHONDONTWRITEBYTECODE="1",
        NUMBA_CACHE_DIR=cdir,
        NUMBA_ENABLE_CUDASIM="1",
        NUMBA_THREADING_LAYER="workqueue",
        NUMBA_NUM_THREADS=os.environ.get("VERIF_NUMBA_THREADS", "16"),
        OMP_NUM_THREADS="1",
        OPENBLAS_NUM_THREADS="1",
        MKL_NUM_THREADS="1",
        VERIF_REPO=REPO,
    )
    env.pop("PYTHONSTARTUP", None)
    if extra:
        env.update(extra)
    return env


def spawn(args, env, stdout=None):
    return subprocess.Popen(
        [PY, WORKER_MAIN, json.dumps(args)],
        cwd=VERIF,
        env=env,
        stdout=stdout if stdout is not None else subprocess.PIPE,
        stderr=subprocess.STDOUT,
    )


def run_wait(args, env, timeout):
    p = spawn(args, env)
    try:
        outp, _ = p.communicate(timeout=timeout)
    except subprocess.TimeoutExpired:
        p.kill()
        outp, _ = p.communicate()
        return 124, outp.decode(errors="replace")
    return p.returncode, outp.decode(errors="replace")


# --------------------------------------------------------------------------
# known findings
# --------------------------------------------------------------------------

def load_known():
    findings = []
    if not os.path.exists(KNOWN):
        return findings
    for line in open(KNOWN):
        line = line.strip()
        if not line.startswith("finding:"):
            continue  # "fixed:" lines and comments suppress nothing
        toks = dict(t.split("=", 1) for t in line[len("finding:"):].split("::")[0].split() if "=" in t)
        what = line.split("::", 1)[1].strip() if "::" in line else ""
        findings.append({"property": toks.get("property"), "cls": toks.get("class"), "site": toks.get("site"), "what": what})
    return findings


def is_known(known, prop, v):
    for k in known:
        if k["property"] == prop and k["cls"] == v["cls"] and (k["site"] == v["site"] or k["site"] == "*"):
            return k
    return None


# --------------------------------------------------------------------------
# main driver
# --------------------------------------------------------------------------

def read_jsonl(path):
    recs = []
    done = False
    if not os.path.exists(path):
        return recs, done
    for line in open(path):
        line = line.strip()
        if not line:
            continue
        try:
            r = json.loads(line)
        except Exception:
            continue
        if r.get("done"):
            done = True
        else:
            recs.append(r)
    return recs, done


def run_check(prop, tier, verif_seed, replay_file=None, budget_override=None):
    t_start = time.time()
    sys.path.insert(0, VERIF)
    import importlib

    mod = importlib.import_module("checks." + prop.lower())
    os.makedirs(OUT, exist_ok=True)
    rundir = os.path.join(OUT, f"run-{prop}-{tier}-{os.getpid()}")
    shutil.rmtree(rundir, ignore_errors=True)
    os.makedirs(rundir)
    replays_dir = os.path.join(OUT, "replays")
    os.makedirs(replays_dir, exist_ok=True)
    env = worker_env()

    if replay_file:
        return do_replay(prop, replay_file, env, rundir)

    log(f"[{prop}] tier={tier} VERIF_SEED={verif_seed} repo={REPO} source_hash={source_hash()}")
    budget = dict(mod.budget(tier))
    if budget_override:
        budget.update(budget_override)
    nworkers = int(budget.get("workers", 16))
    wall = float(budget["wall_s"])
    max_index = int(budget["n"])

    # ---- prime the JIT cache once (first worker compiles, the rest load) ----
    rc, outp = run_wait({"mode": "prime", "property": prop}, env, timeout=900)
    if rc != 0:
        log(outp[-4000:])
        log(f"HARNESS-ERROR property={prop} priming failed rc={rc}")
        return 2

    # ---- regression corpus (committed replay files of earlier findings) ----
    corpus = sorted(glob.glob(os.path.join(VERIF, "regress", prop, "*.json")))
    corpus_viol = []
    corpus_run = 0
    if corpus:
        cout = os.path.join(rundir, "corpus.jsonl")
        rc, outp = run_wait({"mode": "corpus", "files": corpus, "out": cout}, env, timeout=1800)
        recs, done = read_jsonl(cout)
        if rc != 0 or not done:
            log(outp[-4000:])
            log(f"HARNESS-ERROR property={prop} corpus replay failed rc={rc}")
            return 2
        for r in recs:
            corpus_run += 1
            if r.get("harness_error"):
                log(r["harness_error"])
                log(f"HARNESS-ERROR property={prop} corpus file {r.get('file')}")
                return 2
            if r.get("violations"):
                corpus_viol.append(r)

    # ---- seeded exploration ---------------------------------------------------
    procs = []
    variants = budget.get("env_variants") or [{}]
    for k in range(nworkers):
        venv_ = variants[k % len(variants)]
        env_k = worker_env(extra=venv_) if venv_ else env
        args = {
            "mode": "explore", "property": prop, "tier": tier, "verif_seed": verif_seed,
            "start": k, "stride": nworkers, "max_index": max_index, "wall_s": wall,
            "out": os.path.join(rundir, f"w{k}.jsonl"), "sample_below": 3,
            "known": [[kf["cls"], kf["site"]] for kf in load_known() if kf["property"] == prop],
        }
        lf = open(os.path.join(rundir, f"w{k}.log"), "wb")
        args["variant"] = k % len(variants)
        procs.append((k, spawn(args, env_k, stdout=lf), lf))
    hard_deadline = time.time() + wall + 600
    failed = []
    for k, p, lf in procs:
        try:
            rc = p.wait(timeout=max(1, hard_deadline - time.time()))
        except subprocess.TimeoutExpired:
            p.kill()
            rc = 124
        lf.close()
        if rc != 0:
            failed.append((k, rc))
    records = []
    for k, p, lf in procs:
        recs, done = read_jsonl(os.path.join(rundir, f"w{k}.jsonl"))
        records.extend(recs)
        if not done and (k, 0) not in failed and not any(f[0] == k for f in failed):
            failed.append((k, "incomplete"))
    if failed:
        for k, rc in failed:
            lp = os.path.join(rundir, f"w{k}.log")
            if os.path.exists(lp):
                log(open(lp, errors="replace").read()[-3000:])
        log(f"HARNESS-ERROR property={prop} workers failed: {failed}")
        return 2
    herr = [r for r in records if r.get("harness_error")]
    if herr:
        log(herr[0]["harness_error"])
        log(f"HARNESS-ERROR property={prop} scenario index={herr[0]['index']} raised inside the harness")
        return 2
    records.sort(key=lambda r: r["index"])
    wall_explore = time.time() - t_start

    # recorded findings do not "explain" a determinism mismatch: only violations that will be reported do
    known0 = load_known()
    have_violations = any(not is_known(known0, prop, v) for r in list(records) + list(corpus_viol) for v in (r.get("violations") or []))
    # ---- determinism self-test (other process, other hash seed, 1 worker) ----
    det = {"checked": 0, "mismatch": 0}
    process_history = None
    ok_recs = [r for r in records if not r.get("violations") and not r.get("variant")]
    nsel = int(budget.get("selftest", 6))
    if ok_recs and nsel:
        # prefer scenarios that are cheap to re-run (the re-run is serial, in one process)
        cheap = [r for r in ok_recs if r.get("wall", 0) <= 6.0] or ok_recs
        if quantified_over_histories(prop) and len(cheap) >= 4 * nsel:
            cheap = cheap[len(cheap) // 2:]      # scenarios with a long history of earlier scenarios in their worker process
        sel = select_for_selftest(cheap, nsel)
        # re-run in up to four other processes (other hash salt), each serially
        nproc = max(1, min(4, len(sel) // 4))
        env2 = worker_env(hashseed="4242")
        parts = []
        for k in range(nproc):
            sout = os.path.join(rundir, f"selftest{k}.jsonl")
            lf = open(os.path.join(rundir, f"selftest{k}.log"), "wb")
            parts.append((sout, lf, spawn(
                {"mode": "explore", "property": prop, "tier": tier, "verif_seed": verif_seed,
                 "indices": [r["index"] for r in sel[k::nproc]], "wall_s": 3600, "out": sout}, env2, stdout=lf)))
        recs2 = []
        for sout, lf, p in parts:
            try:
                rc = p.wait(timeout=1800)
            except subprocess.TimeoutExpired:
                p.kill()
                rc = 124
            lf.close()
            r2, done2 = read_jsonl(sout)
            recs2.extend(r2)
            if rc != 0 or not done2:
                log(open(lf.name, errors="replace").read()[-3000:])
                log(f"HARNESS-ERROR property={prop} determinism self-test run failed rc={rc}")
                return 2
        by = {r["index"]: r for r in recs2}
        for r in sel:
            r2 = by.get(r["index"])
            det["checked"] += 1
            if r2 is None or r2.get("obs_digest") != r["obs_digest"] or r2.get("case_digest") != r["case_digest"]:
                det["mismatch"] += 1
                log(f"determinism mismatch at index {r['index']}: {r.get('obs_digest')} vs {r2 and r2.get('obs_digest')}")
        if det["mismatch"] and not have_violations:
            # Same scenario, other observations in a fresh process.  If the fresh-process result is itself stable and the
            # in-worker result is reproduced by running the worker's earlier scenarios first, the library's numbers
            # depend on what the process did before: for a property quantified over histories that is a violation,
            # reported with the (minimised) history as the replay file.  Anything else stays a harness error.
            bad = [r for r in sel if (by.get(r["index"]) or {}).get("obs_digest") != r["obs_digest"]]
            ph = None
            if bad and quantified_over_histories(prop):
                ph = process_history_violation(prop, tier, verif_seed, bad[0], nworkers, rundir, replays_dir, budget)
            if ph is None:
                log(f"HARNESS-ERROR property={prop} determinism self-test mismatch ({det}) - the same scenario gave different "
                    "observations in another process; no violation was found that would explain it")
                return 2
            process_history = ph

    # ---- violations: known findings, minimisation, replay confirmation -------
    known = load_known()
    viol_records = [r for r in records if r.get("violations")] + corpus_viol
    sigs = {}
    for r in viol_records:
        for v in r["violations"]:
            sigs.setdefault((v["cls"], v["site"]), (r, v))
    reported = 0
    known_hits = 0
    known_printed = set()
    for (cls, site), (r, v) in sorted(sigs.items()):
        k = is_known(known, prop, v)
        if k:
            known_hits += 1
            kid = (k["cls"], k["site"])
            if kid not in known_printed:
                known_printed.add(kid)
                log(f"KNOWN-FINDING: property={prop} class={k['cls']} site={k['site']} :: {k['what']}")
            continue
        if reported >= 3:
            continue
        sc = r.get("scenario")
        tag = f"{prop}-{verif_seed}-{r.get('index', 'corpus')}-{hashlib.sha256((cls + site).encode()).hexdigest()[:6]}"
        raw = os.path.join(rundir, tag + ".raw.json")
        with open(raw, "w") as f:
            json.dump(sc, f)
        final = os.path.join(replays_dir, tag + ".json")
        rc, outp = run_wait({"mode": "shrink", "file": raw, "out": final, "sig": [cls, site],
                             "wall_s": budget.get("shrink_s", 60)}, env, timeout=900)
        status = {}
        if os.path.exists(final + ".status"):
            status = json.load(open(final + ".status"))
            os.remove(final + ".status")
        if rc != 0 or not status.get("reproduced"):
            # could not re-run it in a fresh process: keep the raw scenario as the replay
            sc2 = dict(sc)
            sc2["violation"] = v
            sc2["note"] = "minimisation did not reproduce in a fresh process; raw scenario kept"
            with open(final, "w") as f:
                json.dump(sc2, f, indent=1, sort_keys=True)
            log(outp[-1500:])
        # confirm the (minimised) replay in yet another fresh process
        crc, cres = replay_once(final, env, rundir)
        confirmed = crc == 0 and any((x["cls"], x["site"]) == (cls, site) for x in cres.get("violations", []))
        log(f"violation class={cls} site={site} detail={v['detail']}")
        log(f"  minimised: {status} confirmed_in_fresh_process={confirmed}")
        log(f"VIOLATION property={prop} replay={final}")
        reported += 1

    if process_history is not None:
        v, final = process_history
        k = is_known(known, prop, v)
        if k:
            known_hits += 1
            log(f"KNOWN-FINDING: property={prop} class={k['cls']} site={k['site']} :: {k['what']}")
        else:
            log(f"violation class={v['cls']} site={v['site']} detail={v['detail']}")
            log(f"VIOLATION property={prop} replay={final}")
            reported += 1

    # ---- evidence ------------------------------------------------------------
    wall_total = time.time() - t_start
    write_evidence(mod, prop, tier, verif_seed, records, corpus_run, det, reported, known_hits,
                   wall_total, wall_explore, nworkers, variants)
    shutil.rmtree(rundir, ignore_errors=True)
    if reported:
        return 1
    log(f"[{prop}] OK: {len(records)} scenarios, {sum(1 for r in records if r.get('nontrivial'))} non-trivial, "
        f"{corpus_run} corpus replays, determinism {det}, {wall_total:.0f}s")
    return 0


def select_for_selftest(cands, nsel):
    """Deterministic, coverage-guided choice of the scenarios to re-run: greedily the scenario that adds the most
    (rarity-weighted) not yet covered reach / fault counters, so that every rare feature of the run (a forced grid, an
    injected fault, a big plan, ...) is represented; ties go to the later scenario (longer process history)."""
    if len(cands) <= nsel:
        return list(cands)
    freq = {}
    for r in cands:
        for k in (r.get("counters") or {}):
            freq[k] = freq.get(k, 0) + 1
    left = sorted(cands, key=lambda r: r["index"])
    covered = set()
    sel = []
    while left and len(sel) < nsel:
        best, best_gain = None, -1.0
        for r in left:
            gain = sum(1.0 / freq[k] for k in (r.get("counters") or {}) if k not in covered)
            if gain >= best_gain:           # >= : the later one wins a tie
                best, best_gain = r, gain
        if best_gain <= 0.0 and covered:
            covered = set()                 # everything covered once: start a second round
            continue
        sel.append(best)
        covered.update((best.get("counters") or {}).keys())
        left.remove(best)
    return sorted(sel, key=lambda r: r["index"])


def quantified_over_histories(prop):
    try:
        for line in open(os.path.join(VERIF, "properties.jsonl")):
            p = json.loads(line)
            if p.get("id") == prop:
                return "histories" in (p.get("quantifier") or {}).get("over", [])
    except Exception:
        pass
    return False


def _digests_in_one_process(files, rundir, hashseed):
    """Run the scenario files in order in ONE fresh process; returns {file: obs_digest} or None."""
    out = os.path.join(rundir, "seq-%d.jsonl" % (time.time_ns() % 10**9))
    rc, outp = run_wait({"mode": "corpus", "files": files, "out": out}, worker_env(hashseed=hashseed), timeout=3600)
    recs, done = read_jsonl(out)
    if rc != 0 or not done or any(r.get("harness_error") for r in recs):
        return None
    return {r["file"]: r.get("obs_digest") for r in recs}


def process_history_violation(prop, tier, verif_seed, rec, nworkers, rundir, replays_dir, budget):
    """rec: explore record whose observations differ from a fresh process' (DESIGN 9).  Returns (violation, replay path)
    if the difference is reproduced by the history of scenarios the worker ran before it, else None."""
    i = int(rec["index"])
    prefix = list(range(i % nworkers, i, nworkers))
    hdir = os.path.join(rundir, "hist")
    rc, outp = run_wait({"mode": "dump", "property": prop, "tier": tier, "verif_seed": verif_seed,
                         "indices": prefix + [i], "dir": hdir}, worker_env(), timeout=900)
    if rc != 0:
        return None
    fpath = lambda j: os.path.join(hdir, f"{j}.json")  # noqa: E731
    target = fpath(i)
    a1 = _digests_in_one_process([target], rundir, "11")
    a2 = _digests_in_one_process([target], rundir, "12")
    if not a1 or not a2 or a1[target] != a2[target]:
        return None                      # not stable on its own: genuine nondeterminism, not history
    alone = a1[target]

    def differs(hist):
        d = _digests_in_one_process([fpath(j) for j in hist] + [target], rundir, "13")
        return d is not None and d.get(target) != alone

    if not prefix:
        return None
    # long histories (thorough tier): the most recent 200 scenarios first, the whole history only if it is affordable
    full = list(prefix)
    prefix = full[-200:]
    if not differs(prefix):
        if len(full) == len(prefix) or len(full) > 600 or not differs(full):
            return None
        prefix = full
    # minimise the history (ddmin over the prefix, bounded)
    deadline = time.time() + float(budget.get("shrink_s", 60)) * 4
    hist = list(prefix)
    n = 2
    while len(hist) >= 2 and time.time() < deadline:
        size = max(1, len(hist) // n)
        chunks = [hist[k:k + size] for k in range(0, len(hist), size)]
        reduced = False
        for c in chunks:
            if time.time() > deadline:
                break
            if len(c) < len(hist) and differs(c):
                hist, n, reduced = c, 2, True
                break
        if not reduced:
            for c in chunks:
                if time.time() > deadline:
                    break
                rest = [j for j in hist if j not in c]
                if rest and differs(rest):
                    hist, n, reduced = rest, max(n - 1, 2), True
                    break
        if not reduced:
            if n >= len(hist):
                break
            n = min(len(hist), 2 * n)
    with_hist = _digests_in_one_process([fpath(j) for j in hist] + [target], rundir, "14")
    v = {"cls": "depends_on_process_history", "site": "observations",
         "detail": f"scenario index {i} gives observation digest {alone} in a fresh process and {with_hist and with_hist.get(target)} "
                   f"after {len(hist)} earlier scenario(s) (indices {hist[:8]}{'...' if len(hist) > 8 else ''}) in the same process: "
                   "state kept at module level leaks from one analysis into the next"}
    final = os.path.join(replays_dir, f"{prop}-{verif_seed}-{i}-prochist.json")
    doc = {"property": prop, "kind": "process_history", "verif_seed": verif_seed, "tier": tier,
           "history": [json.load(open(fpath(j))) for j in hist], "target": json.load(open(target)),
           "alone_digest": alone, "violation": v, "minimised": {"history_from": len(prefix), "history_to": len(hist)}}
    with open(final, "w") as f:
        json.dump(doc, f, indent=1, sort_keys=True)
    return v, final


def replay_process_history(prop, path, rundir):
    doc = json.load(open(path))
    hdir = os.path.join(rundir, "hist")
    os.makedirs(hdir, exist_ok=True)
    files = []
    for k, sc in enumerate(doc["history"] + [doc["target"]]):
        fp = os.path.join(hdir, f"h{k}.json")
        json.dump(sc, open(fp, "w"))
        files.append(fp)
    a = _digests_in_one_process([files[-1]], rundir, "21")
    b = _digests_in_one_process(files, rundir, "22")
    shutil.rmtree(rundir, ignore_errors=True)
    if a is None or b is None:
        log(f"HARNESS-ERROR property={prop} replay failed to run")
        return 2
    if a[files[-1]] != b[files[-1]]:
        log(f"violation class=depends_on_process_history site=observations detail=alone {a[files[-1]]} vs after {len(files) - 1} earlier scenario(s) {b[files[-1]]}")
        log(f"VIOLATION property={prop} replay={path}")
        return 1
    log("replay did not reproduce the recorded violation (property holds on this tree for this history)")
    return 0


def replay_once(path, env, rundir):
    out = os.path.join(rundir, "replay-%d.json" % (time.time_ns() % 10**9))
    rc, outp = run_wait({"mode": "replay", "file": path, "out": out}, env, timeout=900)
    if rc != 0 or not os.path.exists(out):
        return rc or 2, {"error": outp[-3000:]}
    return 0, json.load(open(out))


def do_replay(prop, path, env, rundir):
    rc, outp = run_wait({"mode": "prime", "property": prop}, env, timeout=900)
    try:
        if json.load(open(path)).get("kind") == "process_history":
            return replay_process_history(prop, path, rundir)
    except Exception:
        pass
    rc, res = replay_once(path, env, rundir)
    shutil.rmtree(rundir, ignore_errors=True)
    if rc != 0:
        log(res.get("error"))
        log(f"HARNESS-ERROR property={prop} replay failed to run")
        return 2
    sc = json.load(open(path))
    want = sc.get("violation")
    for v in res.get("violations", []):
        log(f"violation class={v['cls']} site={v['site']} detail={v['detail']}")
    if want:
        hit = any((v["cls"], v["site"]) == (want["cls"], want["site"]) for v in res.get("violations", []))
        if hit:
            log(f"VIOLATION property={prop} replay={path}")
            return 1
        if res.get("violations"):
            log("replay produced a different violation than recorded")
            log(f"VIOLATION property={prop} replay={path}")
            return 1
        log("replay did not reproduce the recorded violation (property holds on this tree for this scenario)")
        return 0
    if res.get("violations"):
        log(f"VIOLATION property={prop} replay={path}")
        return 1
    log("replay: no violation")
    return 0


def write_evidence(mod, prop, tier, verif_seed, records, corpus_run, det, reported, known_hits,
                   wall_total, wall_explore, nworkers, env_variants=None):
    counters = {}
    worlds = {}
    discarded = {}
    nontrivial_digests = set()
    steps = handovers = 0
    sim_time = 0.0
    obs = set()
    sched_digests = set()
    commit_orders = 0
    max_ratio = 0.0
    for r in records:
        for k, v in (r.get("counters") or {}).items():
            counters[k] = counters.get(k, 0) + v
        if r.get("discarded"):
            discarded[r["discarded"]] = discarded.get(r["discarded"], 0) + 1
        if r.get("nontrivial") and not r.get("discarded"):
            nontrivial_digests.add(r["case_digest"])
        steps += r.get("sim_steps", 0)
        handovers += r.get("sim_handovers", 0)
        sim_time += r.get("sim_time_s", 0.0)
        obs.add(r.get("obs_digest"))
        ex = r.get("extra") or {}
        for d in ex.get("schedule_digests", []):
            if len(sched_digests) < 2_000_000:
                sched_digests.add(d)
        commit_orders += int(ex.get("commit_orders", 0))
        if ex.get("max_budget_ratio") is not None:
            max_ratio = max(max_ratio, float(ex["max_budget_ratio"]))
    samples = []
    for r in records:
        if r.get("scenario") is not None and len(samples) < 3:
            s = {"index": r["index"], "seed": r["seed"], "summary": r.get("summary"),
                 "scenario": _truncate(r["scenario"])}
            samples.append(s)
    n = len(records)
    hours = max(wall_explore, 1e-9) / 3600.0
    ev = {
        "property_id": prop,
        "tier": tier,
        "seed": int(verif_seed),
        "level": "exploration",
        "coverage": {
            "evaluations": n,
            "distinct_nontrivial": len(nontrivial_digests),
            "rule": mod.RULE,
            "samples": samples,
            "corpus_replays": corpus_run,
            "scenario_seeds_per_hour": int(n / hours),
            "worker_processes": nworkers,
            "worker_env_variants": env_variants,
            "simulated_scheduler_steps": steps,
            "simulated_handovers": handovers,
            "simulated_time_s": sim_time,
            "distinct_observation_digests": len(obs),
            "distinct_schedule_digests": len(sched_digests),
            "largest_observed_error_over_rounding_budget": max_ratio,
            "distinct_commit_orders_summed_over_scenarios": commit_orders,
            "interleaving_measure": "a schedule digest is the SHA-256 of the full decision sequence (worker, quantum, biased hand-over coin flips) of one simulated parfor / GPU launch set; a commit order is the order in which output slots were completed",
            "fault_and_reach_counters_fired": dict(sorted(counters.items())),
            "discarded": discarded,
            "components": getattr(mod, "COMPONENTS", {}),
            "determinism_selftest": det,
            "known_findings_hit": known_hits,
            "exhaustive": False,
        },
        "assumptions": list(getattr(mod, "ASSUMPTIONS", [])),
        "wall_s": round(wall_total, 2),
        "violations": int(reported),
    }
    # evaluations of seeded changes (tools/eval_seeded.py) point this elsewhere so that evidence/ only ever holds
    # what a check of the real tree covered
    evdir = os.environ.get("VERIF_EVIDENCE_DIR") or os.path.join(VERIF, "evidence")
    os.makedirs(evdir, exist_ok=True)
    path = os.path.join(evdir, prop + ".json")
    tmp = path + ".tmp"
    with open(tmp, "w") as f:
        json.dump(ev, f, indent=1, sort_keys=True)
    os.replace(tmp, path)
    problems = validate_evidence(ev)
    if problems:
        log("evidence self-validation problems: " + "; ".join(problems))


def _truncate(obj, maxlen=40):
    if isinstance(obj, dict):
        return {k: _truncate(v, maxlen) for k, v in obj.items()}
    if isinstance(obj, list):
        if len(obj) > maxlen:
            return [_truncate(v, maxlen) for v in obj[:maxlen]] + [f"... {len(obj) - maxlen} more"]
        return [_truncate(v, maxlen) for v in obj]
    return obj


def validate_evidence(ev):
    """Minimal structural validation mirroring EVIDENCE.schema.json (jsonschema is not in /venv)."""
    p = []
    for k in ("property_id", "tier", "seed", "level", "coverage", "wall_s"):
        if k not in ev:
            p.append("missing " + k)
    c = ev.get("coverage", {})
    if not isinstance(c.get("evaluations"), int) or c.get("evaluations", 0) < 1:
        p.append("evaluations < 1")
    if not isinstance(c.get("distinct_nontrivial"), int) or c.get("distinct_nontrivial", 0) < 2:
        p.append("distinct_nontrivial < 2")
    if not isinstance(c.get("rule"), str):
        p.append("rule missing")
    if not isinstance(c.get("samples"), list) or not c.get("samples"):
        p.append("samples empty")
    return p


def main(argv=None):
    import argparse

    ap = argparse.ArgumentParser(prog="check")
    ap.add_argument("property")
    ap.add_argument("--tier", default=None, choices=["quick", "thorough"])
    ap.add_argument("--replay", default=None)
    ap.add_argument("--n", type=int, default=None)
    ap.add_argument("--wall", type=float, default=None)
    ap.add_argument("--workers", type=int, default=None)
    a = ap.parse_args(argv)
    tier = a.tier or os.environ.get("VERIF_TIER") or "quick"
    if tier not in ("quick", "thorough"):
        tier = "quick"
    try:
        seed = int(os.environ.get("VERIF_SEED", "0"))
    except ValueError:
        seed = 0
    ov = {}
    if a.n is not None:
        ov["n"] = a.n
    if a.wall is not None:
        ov["wall_s"] = a.wall
    if a.workers is not None:
        ov["workers"] = a.workers
    return run_check(a.property.upper(), tier, seed, a.replay, ov)
