"""C20 - derived quantities and exports are consistent views of one estimate.

Simulated dimension: histories of attribute access / copy / deepcopy / pickle
(= crash and revive with only the serialised state surviving, at arbitrary fill
states of the lazy cache) / export / interpolation on result objects.
"""
import copy
import pickle

import numpy as np

from dsim import rng as R
from dsim import scenario as SC
from dsim import shrink as S
from dsim import refmodel as RM
from dsim import clock as CK

PROPERTY = "C20"
RULE = (
    "one scenario = one seeded analysis (auto/cross; full, band-limited to one bin, or single-bin; built-in or custom "
    "plans incl. uniform segment counts; zero-power records) + a history of 10-80 operations on a growing set of live "
    "result objects: getattr(name), copy, deepcopy, pickle (protocol 0-5), to_dataframe, get_measurement (grid / between / "
    "outside / scalar / array), len, repr, dir; non-trivial = the history contains a revive (copy/deepcopy/pickle) at a "
    "partially filled cache, or an export / interpolation on a single-bin or uniform-K result; distinct = scenario digest"
)
COMPONENTS = {
    "real": ["speckit.analysis.SpectrumAnalyzer / SpectrumResult (plan, compute, compute_single_bin, __getattr__ cache, "
             "get_measurement, to_dataframe)", "compiled Numba kernels", "pandas", "copy / pickle protocol machinery"],
    "simulated": ["operation history and revive points (seeded)", "time.perf_counter (simulated clock with jumps)"],
    "stub": [],
}
ASSUMPTIONS = [
    "R3 table encodes only what the statement lists (base definitions, aliases, asd^2=psd, ps, cs, cf, cf_db, deg=rad*180/pi, conjugates, None-table)",
    "error-bar formulas are C10's business and are only compared between clones, never against a formula",
    "dB views may be -inf at a zero bin; interpolation is only checked for quantities that are finite on the grid",
]

ALL_NAMES = RM.DERIVED + RM.RAW


class _Raised:
    def __repr__(self):
        return "<raised>"


RAISED = _Raised()
_DERIVED_SET = set(RM.DERIVED)
_PRESENT = {True: RM.BOTH + RM.CROSS_ONLY, False: RM.BOTH + RM.AUTO_ONLY}
INTERP_NAMES_AUTO = ["Gxx", "psd", "asd", "ps", "ENBW", "Gxx_dev", "XX", "Gyy", "navg", "K", "L"]
INTERP_NAMES_CROSS = ["Gxx", "Gyy", "Gxy", "csd", "Hxy", "tf", "coh", "cf", "cf_rad", "cs", "ENBW", "Gyx", "XY", "ccoh", "Hyx", "navg", "K", "L"]


def budget(tier):
    if tier == "thorough":
        return {"n": 200000, "wall_s": 900, "workers": 16, "selftest": 48}
    return {"n": 3200, "wall_s": 60, "workers": 16, "selftest": 6}


def prime():
    from dsim import worlds

    worlds.prime_compiled()


# --------------------------------------------------------------------------

def generate(seed, tier):
    rw = R.stream(seed, "workload")
    N = rw.choice([16, 24, 33, 64, 100, 150, 200, 300])
    channels = rw.choice([1, 2, 2])
    data = SC.gen_data_spec(rw, N, channels)
    if rw.random() < 0.15:
        data["recipe"] = rw.choice(["zeros", "const", "impulses"])
    cfg = SC.gen_config(rw, N, backends=("numba", "numba", "numpy", "auto"), allow_band=True)
    cfg["layout"] = rw.choice(SC.LAYOUTS)      # how a two-channel record is handed over (2xN, its transposed view, a list of rows)
    kind = rw.choice(["full", "full", "full", "single", "band1", "band2"])
    sc = {"data": data, "cfg": cfg, "kind": kind, "clock": CK.gen_clock(R.stream(seed, "clock"))}
    if kind == "single":
        L = rw.choice([1, 2, 2, 3]) if rw.random() < 0.15 else rw.randrange(1, N + 1)
        fsing = rw.choice([0.0, 0.5 * cfg["fs"]]) if rw.random() < 0.12 else round(rw.uniform(0, 0.5) * cfg["fs"], 6)   # incl. DC and Nyquist
        r_ = rw.random()
        sc["single"] = {"f": fsing, "L": L} if r_ < 0.5 else ({"f": fsing, "fres": cfg["fs"] / L} if r_ < 0.75 else
                                                            {"f": fsing, "fres": cfg["fs"] / (L + round(rw.uniform(-0.45, 0.45), 3))})   # fs/fres not an integer
        cfg["band"] = None
    if kind in ("band1", "band2"):
        cfg["band"] = None
        sc["band_bin"] = rw.randrange(0, 64)
    names = ALL_NAMES
    interp = INTERP_NAMES_CROSS if channels == 2 else INTERP_NAMES_AUTO
    nops = rw.randrange(10, 81)
    ops = []
    nobj = 1
    for _ in range(nops):
        r = rw.random()
        o = rw.randrange(nobj)
        if r < 0.5:
            ops.append(["attr", o, rw.choice(names)])
        elif r < 0.58:
            ops.append(["copy", o]); nobj += 1
        elif r < 0.66:
            ops.append(["deepcopy", o]); nobj += 1
        elif r < 0.76:
            if tier == "thorough" and rw.random() < 0.008:
                ops.append(["xpickle", o, rw.randrange(2, 6)])
            else:
                ops.append(["pickle", o, rw.randrange(0, 6)]); nobj += 1
        elif r < 0.82:
            ops.append(["df", o])
        elif r < 0.835:
            # fault injection: the NumPy call that allocates the attribute's value fails once (MemoryError)
            ops.append(["attr_fault", o, rw.choice(RM.DERIVED), rw.choice(["sqrt", "abs", "divide", "conj", "angle", "unwrap", "zeros_like", "multiply"])])
        elif r < 0.84:
            ops.append(["churn", o, rw.choice(interp), rw.randrange(2 ** 31)])      # short-lived results queried and dropped in between
        elif r < 0.845:
            # the whole grid, shifted by a few ppm (another record whose clock is slightly off), or a scaled copy of it
            ops.append(["meas_grid", o, rw.choice(interp), rw.choice([2e-6, -2e-6, 1e-7, -3e-9, 1e-3, 0.0]), rw.random() < 0.3])
        elif r < 0.94:
            q = []
            for _ in range(rw.choice([1, 1, 2, 5])):
                kq = rw.choice(["grid", "between", "below", "above"])
                q.append([kq, rw.randrange(0, 64), round(rw.uniform(0.05, 0.95), 4)])
            ops.append(["meas", o, rw.choice(interp), q, rw.random() < 0.4])
        elif r < 0.955:
            # drawing a result is one more way of reading it: afterwards every attribute must still have its value
            ops.append(["plot", o, rw.choice([None, "bode", "bode", "asd", "psd", "coh", "csd", "cf"]),
                        {"dB": rw.random() < 0.4, "deg": rw.random() < 0.6, "unwrap": rw.random() < 0.5, "errors": rw.random() < 0.5,
                         "sigma": rw.choice([1, 1, 3])}])
        else:
            ops.append([rw.choice(["len", "repr", "dir"]), o])
        if nobj > 8:
            nobj = 8
    sc["ops"] = ops
    return sc


# --------------------------------------------------------------------------

def _eq(a, b):
    """NaN-aware exact equality of attribute values (arrays, ragged object arrays, None, scalars)."""
    if a is None or b is None:
        return a is None and b is None
    if isinstance(a, np.ndarray) or isinstance(b, np.ndarray):
        a = np.asarray(a)
        b = np.asarray(b)
        if a.shape != b.shape:
            return False
        if a.dtype == object or b.dtype == object:
            return all(_eq(x, y) for x, y in zip(a.ravel(), b.ravel()))
        if a.dtype != b.dtype:
            return False
        return bool(np.array_equal(a, b, equal_nan=True))
    try:
        return bool(a == b) or (a != a and b != b)
    except Exception:
        return False


def _close(a, b, rel=1e-12, abs_=0.0):
    a = np.asarray(a)
    b = np.asarray(b)
    if a.shape != b.shape:
        return False
    with np.errstate(all="ignore"):
        both_nan = np.isnan(a) & np.isnan(b)
        same = (a == b)
        fin = np.isfinite(a) & np.isfinite(b)       # an infinity only matches the same infinity
        d = np.abs(a - b)
        ok = fin & (d <= rel * np.maximum(np.abs(a), np.abs(b)) + abs_)
    return bool(np.all(ok | both_nan | same))


def make_result(sc, out):
    """Build the analysis; returns (result, analyzer, info) or None if the scenario is discarded."""
    data = SC.make_record(sc["data"])
    cfg = dict(sc["cfg"])
    try:
        if sc["kind"] in ("band1", "band2"):
            an0 = SC.build_analyzer(data, cfg)
            p0 = an0.plan()
            nf0 = int(p0["nf"])
            fsort = np.sort(np.asarray(p0["f"], dtype=np.float64))
            k = sc["band_bin"] % nf0
            if sc["kind"] == "band2" and nf0 >= 2:
                k = min(k, nf0 - 2)
                cfg["band"] = [float(fsort[k]), float(fsort[k + 1])]      # exactly two bins
            else:
                cfg["band"] = [float(fsort[k]), float(fsort[k])]
        an = SC.build_analyzer(data, cfg)
        if sc["kind"] == "single":
            s = sc["single"]
            if "L" in s:
                res = an.compute_single_bin(s["f"], L=s["L"])
            else:
                res = an.compute_single_bin(s["f"], fres=s["fres"])
        else:
            an.plan()
            res = an.compute()
    except Exception as e:
        out.discarded = "plan_or_compute_failure"
        out.count("discarded_plan_failure")
        out.extra["discard_reason"] = f"{type(e).__name__}: {e}"[:200]
        return None
    return res, an, cfg


def execute(sc, out):
    clock = CK.SimClock(sc.get("clock"))
    with clock.installed():
        made = make_result(sc, out)
    out.sim_time_s += clock.elapsed()
    for k, v in clock.fired.items():
        out.count(k, v)
    if made is None:
        return
    res, an, cfg = made
    iscsd = sc["data"]["channels"] == 2
    nf = len(res.f)
    uniform_k = nf >= 1 and len({int(k) for k in np.asarray(res.K)}) == 1
    single = nf == 1
    out.count("result_single_bin" if single else ("result_uniform_K" if uniform_k else "result_ragged"))

    try:        # a one-bin result of the same analyzer (probe for "is this attribute per-bin?")
        probe = an.compute_single_bin(float(np.asarray(res.f)[0]), L=int(np.asarray(res.L)[0]))
    except Exception:
        probe = None
    objs = [res]
    origin = [None]            # index of the object a clone was made from
    # snapshot of "truth": values of a pristine twin computed once, never touched by the history
    truth_obj = _fresh_twin(sc, out)
    if truth_obj is None:
        return
    truth = {}
    for name in ALL_NAMES:
        try:
            truth[name] = _snap(getattr(truth_obj, name))
        except Exception as e:
            out.violate("exception", f"getattr:{name}", f"{type(e).__name__}: {e}")
            truth[name] = RAISED
    truth.pop("compute_t", None)   # the only clock-dependent field: clones are compared with the original object instead
    _check_r3(truth, res, iscsd, nf, out)

    def cache_state(o):
        c = getattr(o, "__dict__", {}).get("_cache")
        if not isinstance(c, dict):
            return "unknown"
        n = sum(1 for k in c if k in _DERIVED_SET)      # raw fields in the cache do not count as "filled"
        return "empty" if n == 0 else ("full" if n >= len(_PRESENT[iscsd]) else "partial")

    for op in sc["ops"]:
        kind = op[0]
        oi = op[1]
        if oi >= len(objs):
            continue
        o = objs[oi]
        out.sim_steps += 1
        try:
            if kind == "attr":
                name = op[2]
                v = getattr(o, name)
                if name == "compute_t":
                    if oi > 0 and not _eq(v, res.compute_t):
                        out.violate("clone_differs", name, f"object #{oi} ({_lineage(origin, oi)}): compute_t differs from the original's")
                elif truth.get(name) is not RAISED and not _eq(v, truth[name]):
                    cls = "clone_differs" if oi > 0 else "attr_changed_by_history"
                    out.violate(cls, name, f"object #{oi} ({_lineage(origin, oi)}): {name} differs from the pristine value")
                out.count("attr_access")
            elif kind in ("copy", "deepcopy", "pickle"):
                st = cache_state(o)
                if kind == "copy":
                    c = copy.copy(o)
                    tag = "copy"
                elif kind == "deepcopy":
                    c = copy.deepcopy(o)
                    tag = "deepcopy"
                else:
                    c = pickle.loads(pickle.dumps(o, protocol=op[2]))
                    tag = f"pickle{op[2]}"
                out.count(f"revive_{tag}_{st}")
                if st == "partial":
                    out.nontrivial = True
                if len(objs) < 8:
                    objs.append(c)
                    origin.append((oi, tag))
                # a revived object must be a complete, equal result immediately
                for name in ("f", "XX", "XY", "K", "D", "Gxx", "ENBW") + (("coh", "Hxy") if iscsd else ("asd", "ps")):
                    v = getattr(c, name)
                    ref = truth.get(name) if name in truth else _snap(getattr(truth_obj, name))
                    if not _eq(v, ref):
                        out.violate("clone_differs", name, f"{tag} of object #{oi} at cache={st}: {name} differs from source")
                if len(c) != nf or bool(c.iscsd) != iscsd or float(c.fs) != float(res.fs):
                    out.violate("clone_differs", "scalars", f"{tag}: len/iscsd/fs differ")
            elif kind == "xpickle":
                _xpickle(o, op[2], truth, iscsd, out)
            elif kind == "df":
                df = o.to_dataframe()
                _check_df(df, o, truth, nf, iscsd, out, probe)
                out.count("export_single_bin" if single else ("export_uniform_K" if uniform_k else "export_ragged"))
                if single or uniform_k:
                    out.nontrivial = True
            elif kind == "attr_fault":
                from dsim import parfor as _pf

                name, fn = op[2], op[3]
                if _pf.LIBRARY_NUMPY is not None:
                    _pf.LIBRARY_NUMPY.arm_fault(fn, 1)
                    try:
                        getattr(o, name)
                    except MemoryError:
                        out.count("attr_fault_fired")
                    finally:
                        _pf.LIBRARY_NUMPY.disarm_faults()
                    # whatever happened, the attribute must now evaluate to its proper value
                    v = getattr(o, name)
                    if truth.get(name) is not RAISED and name != "compute_t" and not _eq(v, truth[name]):
                        out.violate("attr_wrong_after_failed_evaluation", name, f"object #{oi}: after an injected MemoryError in numpy.{fn} during its evaluation, {name} is {type(v).__name__} instead of its value")
            elif kind == "churn":
                import gc

                which, seed_ = op[2], op[3]
                for rep in range(3):
                    spec2 = dict(sc["data"], rng=seed_ + rep, recipe="noise")
                    try:
                        tmp = SC.build_analyzer(SC.make_record(spec2), dict(cfg, band=None)).compute()
                    except Exception:
                        break
                    tab = np.asarray(getattr(tmp, which))
                    ft = np.asarray(tmp.f)
                    if tab.dtype != object and len(ft) >= 2 and np.all(np.diff(ft) > 0) and np.all(np.isfinite(tab.real)):
                        fq = np.array([ft[0], 0.5 * (ft[0] + ft[1]), ft[-1]])
                        got = np.asarray(tmp.get_measurement(fq, which))
                        exp = _lin_interp(ft, tab, fq)
                        scale = float(np.max(np.abs(tab))) or 1.0
                        if got.shape != exp.shape or not np.all(np.abs(got - exp) <= 1e-9 * scale):
                            out.violate("interpolation", f"{which}:short_lived_result", f"result #{rep + 1} of a sequence of short-lived results returned values that are not its own table's (stale state keyed by object identity?)")
                    del tmp
                    gc.collect()
                out.count("short_lived_results_churned")
            elif kind == "meas_grid":
                _check_meas_grid(o, op, truth, nf, out)
                if single or uniform_k:
                    out.nontrivial = True
            elif kind == "meas":
                _check_meas(o, op, truth, nf, out)
                if single or uniform_k:
                    out.nontrivial = True
            elif kind == "plot":
                _plot(o, op[2], op[3], iscsd, out)
            elif kind == "len":
                if len(o) != nf:
                    out.violate("len", "len", f"len(result)={len(o)} nf={nf}")
            elif kind == "repr":
                repr(o)
            elif kind == "dir":
                d = dir(o)
                for name in ("Gxx", "ENBW", "f"):
                    if name not in d:
                        out.violate("dir", name, "documented name missing from dir(result)")
        except Exception as e:
            site = kind if kind != "attr" else f"getattr:{op[2]}"
            if kind == "pickle":
                site = "pickle"
            out.violate("exception", site, f"{kind} on object #{oi} ({_lineage(origin, oi)}) raised {type(e).__name__}: {str(e)[:200]}")
    # at the end: every live object equals the pristine truth for every name (cached before or after cloning)
    for oi, o in enumerate(objs):
        for name in ALL_NAMES:
            if truth.get(name) is RAISED:
                continue
            try:
                if name == "compute_t":
                    truth[name] = _snap(res.compute_t)
                v = getattr(o, name)
            except Exception as e:
                out.violate("exception", f"getattr:{name}", f"final sweep object #{oi} ({_lineage(origin, oi)}): {type(e).__name__}: {str(e)[:200]}")
                continue
            if not _eq(v, truth[name]):
                cls = "clone_differs" if oi > 0 else "attr_changed_by_history"
                out.violate(cls, name, f"final sweep: object #{oi} ({_lineage(origin, oi)}) {name} differs from the pristine value")
            out.observe(name, v if v is not None and name != "compute_t" else None)
    out.summary = {"kind": sc["kind"], "csd": iscsd, "nf": nf, "nops": len(sc["ops"]), "objects": len(objs)}


def _plot(o, which, kw, iscsd, out):
    """Draw the result on an off-screen canvas.  What the picture looks like is not specified; that the result is
    unchanged afterwards is (the final sweep and every later access compare with the pristine values)."""
    import matplotlib

    matplotlib.use("Agg", force=True)
    import matplotlib.pyplot as plt

    if which in ("coh", "csd", "cf", "bode") and not iscsd:
        which = "asd"
    if which in ("asd", "psd") and iscsd:
        which = "bode"
    import warnings

    try:
        with warnings.catch_warnings():
            warnings.simplefilter("ignore")
            o.plot(which, **kw)
        out.count("plot_drawn")
    except (ValueError, TypeError) as e:
        # a request the plotting front-end refuses (e.g. log axis of an all-zero trace) is not part of C20
        out.count("plot_refused")
        out.extra["plot_refused"] = f"{type(e).__name__}: {str(e)[:120]}"
    finally:
        plt.close("all")


_XSCRIPT = r"""
import sys, pickle
import speckit
blob = sys.stdin.buffer.read()
obj = pickle.loads(blob)
names = %r
vals = {}
for n in names:
    try:
        vals[n] = getattr(obj, n)
    except Exception as e:
        vals[n] = ("<raised>", type(e).__name__, str(e)[:100])
sys.stdout.buffer.write(pickle.dumps({"vals": vals, "len": len(obj), "again": pickle.dumps(obj, protocol=4)}, protocol=4))
"""


def _xpickle(o, proto, truth, iscsd, out):
    """Crash-and-revive through a second interpreter: only the pickled bytes survive."""
    import os
    import subprocess
    import sys

    names = [n for n in ALL_NAMES if n != "compute_t"]
    blob = pickle.dumps(o, protocol=proto)
    env = dict(os.environ)
    p = subprocess.run([sys.executable, "-c", _XSCRIPT % (names,)], input=blob, capture_output=True, env=env, timeout=240)
    out.count("revive_cross_process")
    if p.returncode != 0:
        out.violate("exception", "pickle_cross_process", f"unpickling in a fresh interpreter failed: {p.stderr.decode(errors='replace')[-300:]}")
        return
    got = pickle.loads(p.stdout)
    for n in names:
        v = got["vals"].get(n)
        if truth.get(n) is RAISED:
            continue
        if isinstance(v, tuple) and len(v) == 3 and v[0] == "<raised>":
            out.violate("exception", f"getattr:{n}", f"in a fresh interpreter after unpickling: {v[1]}: {v[2]}")
        elif not _eq(v, truth[n]):
            out.violate("clone_differs", n, f"pickle (protocol {proto}) through a second interpreter: {n} differs from the source")
    back = pickle.loads(got["again"])
    for n in ("XX", "XY", "f", "K"):
        if truth.get(n) is not RAISED and not _eq(getattr(back, n), truth[n]):
            out.violate("clone_differs", n, "pickle round trip through a second interpreter and back differs")


def _lineage(origin, oi):
    chain = []
    while oi is not None and origin[oi] is not None:
        src, tag = origin[oi]
        chain.append(tag)
        oi = src
    return "original" if not chain else "<-".join(chain)


def _snap(v):
    if isinstance(v, np.ndarray):
        if v.dtype == object:
            return copy.deepcopy(v)
        return np.array(v, copy=True)
    return copy.deepcopy(v)


def _fresh_twin(sc, out):
    """Same analysis on a fresh analyzer under a frozen copy of the same clock: the pristine reference object."""
    clock = CK.SimClock(sc.get("clock"))
    o2 = type(out)()
    with clock.installed():
        made = make_result(sc, o2)
    if made is None:
        out.discarded = "twin_failure"
        return None
    return made[0]


def _check_r3(truth, res, iscsd, nf, out):
    if any((truth.get(k) is RAISED) for k in ("XX", "YY", "XY", "S2", "S12")):
        return
    XX, YY, XY, S2, S12 = truth["XX"], truth["YY"], truth["XY"], truth["S2"], truth["S12"]
    fs = float(res.fs)
    tab = RM.r3_table(XX, YY, XY, S2, S12, fs, iscsd)
    for name, ref in tab.items():
        v = truth.get(name)
        if v is RAISED:
            continue
        if v is None:
            out.violate("none_table", name, f"{name} is None for an {'cross' if iscsd else 'auto'} analysis")
            continue
        v = np.asarray(v)
        if v.shape != (nf,):
            out.violate("shape", name, f"{name}.shape={v.shape}, nf={nf}")
            continue
        if not _close(v, ref, rel=1e-12):
            j = int(np.argmax(np.abs(v - ref)))
            out.violate("derived_formula", name, f"{name}[{j}]={v[j]!r} documented value {ref[j]!r}")
    # None table
    none_names = RM.AUTO_ONLY if iscsd else RM.CROSS_ONLY
    for name in none_names:
        if truth.get(name) is not None and truth.get(name) is not RAISED:
            out.violate("none_table", name, f"{name} should be None for an {'cross' if iscsd else 'auto'} analysis")
    present = RM.BOTH + (RM.CROSS_ONLY if iscsd else RM.AUTO_ONLY)
    for name in present:
        v = truth.get(name)
        if v is RAISED:
            continue
        if v is None:
            out.violate("none_table", name, f"{name} is None but applies to this analysis type")
        elif np.asarray(v).shape != (nf,):
            out.violate("shape", name, f"{name}.shape={np.asarray(v).shape}, nf={nf}")
    # relational statements between attributes of the same object
    def g(n):
        v = truth.get(n)
        return None if v is RAISED else v
    with np.errstate(all="ignore"):
        if not iscsd:
            if g("asd") is not None and g("psd") is not None and not _close(g("asd") ** 2, g("psd"), rel=1e-12):
                out.violate("derived_formula", "asd", "asd^2 != psd")
            if g("ps") is not None and not _close(g("ps"), g("psd") * g("ENBW"), rel=1e-12):
                out.violate("derived_formula", "ps", "ps != psd*ENBW")
            for a, b in (("psd", "Gxx"), ("G", "Gxx"), ("Gyy", "Gxx")):
                if g(a) is not None and g(b) is not None and not _eq(g(a), g(b)):
                    out.violate("derived_formula", a, f"{a} is not the same estimate as {b}")
        else:
            if g("cs") is not None and not _close(g("cs"), g("csd") * g("ENBW"), rel=1e-12):
                out.violate("derived_formula", "cs", "cs != csd*ENBW")
            if g("cf") is not None and not _close(g("cf"), np.abs(g("Hxy")), rel=1e-12):
                out.violate("derived_formula", "cf", "cf != |Hxy|")
            if g("cf_db") is not None and not _close(g("cf_db"), 20.0 * np.log10(g("cf")), rel=1e-12, abs_=1e-12):
                out.violate("derived_formula", "cf_db", "cf_db != 20 log10(cf)")
            if g("cf_rad") is not None and not _close(g("cf_rad"), np.angle(g("Hxy")), rel=1e-12, abs_=1e-15):
                out.violate("derived_formula", "cf_rad", "cf_rad != angle(Hxy)")
            for deg, rad in (("cf_deg", "cf_rad"), ("cf_deg_unwrapped", "cf_rad_unwrapped"), ("Hxy_deg_error", "Hxy_rad_error")):
                if g(deg) is not None and g(rad) is not None and not _close(g(deg), g(rad) * (180.0 / np.pi), rel=1e-12, abs_=1e-300):
                    out.violate("derived_formula", deg, f"{deg} != {rad}*180/pi")
            if g("cf_rad_unwrapped") is not None and g("cf_rad") is not None:
                k = (g("cf_rad_unwrapped") - g("cf_rad")) / (2 * np.pi)
                if not np.all(np.abs(k - np.round(k)) < 1e-9):
                    out.violate("derived_formula", "cf_rad_unwrapped", "unwrapped phase is not the phase modulo 2 pi")
            for a, b in (("Gyx", "Gxy"), ("Hyx", "Hxy")):
                if g(a) is not None and g(b) is not None and not _eq(g(a), np.conj(g(b))):
                    out.violate("derived_formula", a, f"{a} != conj({b})")
            for a, b in (("csd", "Gxy"), ("tf", "Hxy")):
                if g(a) is not None and g(b) is not None and not _eq(g(a), g(b)):
                    out.violate("derived_formula", a, f"{a} is not the same estimate as {b}")
        # "standard deviations and normalised random errors" of the same estimate: dev = |estimate| * error
        pairs = [("Gxx_dev", "Gxx", "Gxx_error"), ("Gyy_dev", "Gyy", "Gyy_error")]
        if iscsd:
            pairs += [("Gxy_dev", "Gxy", "Gxy_error"), ("Hxy_dev", "Hxy", "Hxy_mag_error"), ("coh_dev", "coh", "coh_error")]
        for dev, est, err in pairs:
            d_, e_, r_ = g(dev), g(est), g(err)
            if d_ is None or e_ is None or r_ is None:
                continue
            d_ = np.asarray(d_, dtype=np.float64)
            prod = np.abs(np.asarray(e_)) * np.abs(np.asarray(r_, dtype=np.float64))
            m = np.isfinite(d_) & (np.abs(np.asarray(e_)) > 0)       # where the deviation is a number, so is the error
            scale = float(np.max(np.abs(d_[m]))) if np.any(m) else 0.0
            if np.any(m) and not np.all(np.abs(d_[m] - prod[m]) <= 1e-9 * np.abs(d_[m]) + 1e-300 + 1e-14 * scale):
                j = int(np.flatnonzero(m)[np.argmax(np.where(np.isfinite(prod[m]), np.abs(d_[m] - prod[m]), np.inf))])
                out.violate("derived_formula", err, f"{dev}[{j}]={d_[j]!r} but |{est}|*{err}={prod[j]!r}")
    out.count("oracle_r3")


def _check_df(df, o, truth, nf, iscsd, out, probe=None):
    import pandas as pd

    if not isinstance(df, pd.DataFrame):
        out.violate("dataframe", "type", f"to_dataframe returned {type(df).__name__}")
        return
    if len(df) != nf or not _eq(np.asarray(df.index.values, dtype=np.float64), truth["f"]):
        out.violate("dataframe", "index", "DataFrame is not indexed by the frequency vector")
    for col in df.columns:
        ref = truth.get(col)
        if col not in truth:
            try:
                ref = getattr(o, col)
            except Exception:
                out.violate("dataframe", str(col), "column is not an attribute of the result")
                continue
            # an undocumented column: a per-bin array has one entry per bin for EVERY result, so the same attribute of a
            # one-bin result of this analyzer must have exactly one entry
            if col != "D" and probe is not None:
                try:
                    pv = getattr(probe, col)
                    if not (isinstance(pv, np.ndarray) and pv.shape[:1] == (1,)):
                        out.violate("dataframe", str(col), f"column '{col}' is exported although it is not a per-bin array (its length does not follow the number of bins)")
                        continue
                except Exception:
                    pass
        if ref is RAISED:
            continue
        if ref is None or np.asarray(ref).shape[:1] != (nf,):
            out.violate("dataframe", str(col), "column does not correspond to a per-bin array")
            continue
        refa = np.asarray(ref)
        if refa.dtype == object or refa.ndim != 1:
            continue  # ragged / 2-D D: not specified
        if not _eq(np.asarray(df[col].values), refa):
            out.violate("dataframe", str(col), "column differs from the attribute of that name")
    present = RM.RAW + RM.BOTH + (RM.CROSS_ONLY if iscsd else RM.AUTO_ONLY)
    for name in present:
        v = truth.get(name)
        if isinstance(v, np.ndarray) and v.dtype != object and v.shape == (nf,) and name not in ("f", "G", "compute_t"):
            if name not in df.columns:
                out.violate("dataframe", name, "per-bin array missing from the DataFrame export")


def _lin_interp(f, tab, fq):
    """Piecewise-linear interpolation with clamping, written out independently (real and imaginary parts alike)."""
    res = np.empty(len(fq), dtype=np.result_type(tab.dtype, np.float64))
    for i, q in enumerate(fq):
        if q <= f[0]:
            res[i] = tab[0]
        elif q >= f[-1]:
            res[i] = tab[-1]
        else:
            j = int(np.searchsorted(f, q, side="right")) - 1
            t = (q - f[j]) / (f[j + 1] - f[j])
            res[i] = tab[j] + t * (tab[j + 1] - tab[j])
    return res


def _check_meas_grid(o, op, truth, nf, out):
    _, oi, which, delta, reverse = op
    tab = truth.get(which)
    if tab is RAISED or tab is None:
        return
    f = truth["f"]
    tab = np.asarray(tab)
    if nf >= 2 and not np.all(np.diff(f) > 0):
        return
    if not np.all(np.isfinite(tab.real)) or (np.iscomplexobj(tab) and not np.all(np.isfinite(tab.imag))):
        return
    fq = np.array(f, dtype=np.float64) * (1.0 + delta)
    if reverse:
        fq = fq[::-1].copy()
    exp = _lin_interp(f, tab, fq)
    got = np.asarray(o.get_measurement(fq, which))
    out.count("interp_full_grid_shifted" if delta else "interp_full_grid_exact")
    if got.shape != exp.shape:
        out.violate("interpolation", f"{which}:fullgrid", f"query of the whole grid ({nf} frequencies) returned shape {got.shape}")
        return
    scale = float(np.max(np.abs(tab))) if tab.size else 0.0
    err = float(np.max(np.abs(got - exp))) if exp.size else 0.0
    if not err <= 1e-9 * scale + 1e-300:
        out.violate("interpolation", f"{which}:fullgrid", f"grid scaled by 1{delta:+g}: get_measurement deviates from linear interpolation by {err:.3e} (scale {scale:.3e})")


def _check_meas(o, op, truth, nf, out):
    _, oi, which, queries, as_scalar = op
    tab = truth.get(which)
    if tab is RAISED or tab is None:
        return
    f = truth["f"]
    tab = np.asarray(tab)
    if nf >= 2 and not np.all(np.diff(f) > 0):
        return
    if not np.all(np.isfinite(tab.real)) or (np.iscomplexobj(tab) and not np.all(np.isfinite(tab.imag))):
        return
    freqs = []
    exp = []
    kinds = []
    for kq, i, t in queries:
        if kq == "grid":
            j = i % nf
            freqs.append(float(f[j])); exp.append(tab[j]); kinds.append("grid")
        elif kq == "between" and nf >= 2:
            j = i % (nf - 1)
            fq = float(f[j] + t * (f[j + 1] - f[j]))
            if not (f[j] < fq < f[j + 1]):
                continue
            te = (fq - f[j]) / (f[j + 1] - f[j])
            freqs.append(fq); exp.append(tab[j] + te * (tab[j + 1] - tab[j])); kinds.append("between")
        elif kq == "below":
            freqs.append(float(f[0]) - (0.1 + t) * max(abs(float(f[0])), 1.0)); exp.append(tab[0]); kinds.append("outside")
        elif kq == "above":
            freqs.append(float(f[-1]) + (0.1 + t) * max(abs(float(f[-1])), 1.0)); exp.append(tab[-1]); kinds.append("outside")
    if not freqs:
        return
    for kd in kinds:
        out.count("interp_" + kd)
    scale = float(np.max(np.abs(tab))) if tab.size else 0.0
    if as_scalar:
        out.count("interp_scalar")
        got = o.get_measurement(freqs[0], which)
        if isinstance(got, np.ndarray) and got.ndim > 0:
            out.violate("interpolation", which, "scalar query returned an array")
            return
        got = np.array([got])
        exp = exp[:1]
        kinds = kinds[:1]
    else:
        got = np.asarray(o.get_measurement(np.array(freqs, dtype=float), which))
        if got.shape != (len(freqs),):
            out.violate("interpolation", which, f"array query of {len(freqs)} frequencies returned shape {got.shape}")
            return
    exp = np.asarray(exp)
    for gv, ev, kd in zip(got, exp, kinds):
        tol = 1e-9 * scale + 1e-300 if kd == "between" else 1e-12 * abs(ev) + 1e-300
        if not (abs(gv - ev) <= tol):
            out.violate("interpolation", f"{which}:{kd}", f"get_measurement gave {gv!r}, expected {ev!r} ({kd})")


# --------------------------------------------------------------------------

def size(sc):
    return len(sc["ops"])


def shrink_candidates(sc):
    yield from S.drop_chunks(sc, "ops")
    if sc.get("clock"):
        c = copy.deepcopy(sc); c["clock"] = None; yield c
    if sc["cfg"].get("band") is not None and sc["kind"] != "band1":
        c = copy.deepcopy(sc); c["cfg"]["band"] = None; yield c
    for N in (16, 24, 33, 64):
        if N < sc["data"]["N"] and sc["kind"] != "single" and sc["cfg"]["scheduler"] != "custom":
            c = copy.deepcopy(sc); c["data"]["N"] = N
            c["cfg"]["Lmin"] = min(c["cfg"]["Lmin"], N // 2)
            yield c
    if sc["data"]["recipe"] != "noise":
        c = copy.deepcopy(sc); c["data"]["recipe"] = "noise"; yield c
    for k, v in (("order", 0), ("win", "hann"), ("olap", 0.5), ("backend", "numba"), ("force_target_nf", False)):
        if sc["cfg"].get(k) != v:
            c = copy.deepcopy(sc); c["cfg"][k] = v; yield c
