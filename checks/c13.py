"""C13 - inputs are sanitised, never modified, layout-independent.

Simulated dimension: data-fault injection (NaN / +-Inf / NaN payloads at seeded positions of the caller's buffer),
caller-buffer ownership monitored byte-for-byte across a history of calls on a buffer the analyzer may alias, and the
layout / stride / dtype / alignment of the buffer handed over; executed in the compiled, NumPy and simulated worlds.
"""
import copy

import numpy as np

from dsim import rng as R
from dsim import scenario as SC
from dsim import shrink as S
from dsim import session as SS
from dsim import worlds as W
from dsim import clock as CK
from dsim import refmodel as RM

PROPERTY = "C13"
RULE = (
    "one scenario = a finite base record materialised in a seeded layout (1-D, 2xN, Nx2, list/tuple of arrays or lists, "
    "Fortran order, strided / reversed / unaligned views, dtype f8 f4 >f8 f16-free longdouble i2 i8 bool) with a seeded "
    "fault plan injected into that buffer (NaN, +Inf, -Inf, NaN payload; first/last sample, random, burst, whole channel, "
    "everything, none) + a history (construct, plan, compute, compute_single_bin, second analyzer on the same buffer) in "
    "one world; non-trivial = >=1 fault inside a segment used by the plan, or a non-canonical layout/dtype; distinct = scenario digest"
)
COMPONENTS = {
    "real": ["SpectrumAnalyzer.__init__ shape/dtype normalisation and sanitising", "plan/compute/compute_single_bin", "all three backends' kernels",
             "derived-quantity guards in SpectrumResult"],
    "simulated": ["data faults in the caller's buffer", "buffer layout / stride / dtype / alignment", "byte-level ownership monitor", "worker schedules (sim worlds)", "time.perf_counter"],
    "stub": ["GPU hardware (Numba CUDASIM)"],
}
ASSUMPTIONS = [
    "canonical run = C-contiguous float64 copy with the faulty samples set to 0.0 in the same world and thread configuration: equality is bitwise in the NumPy and simulated worlds; in the real-numba world the four statistics may differ within twice the rounding budget (compiled fastmath kernels are not bit-reproducible across array flavours, cf. the recorded C14 finding)",
    "finiteness is demanded for every finite input, including amplitudes up to 1e300 whose squares overflow (the library's documented clean-up turns overflowed statistics into 0); dB views and error bars at zero coherence are not demanded",
    "N x 1 / 1 x N / 2 x 2 inputs are not generated (not listed by the statement / ambiguous)",
]

LAYOUTS_1 = ["1d", "1d", "1d_list", "1d_strided", "1d_reversed", "1d_offset", "1d_readonly", "1d_array_array", "1d_memoryview"]
LAYOUTS_2 = ["2xN", "2xN", "Nx2", "Nx2_view", "list_arrays", "tuple_arrays", "list_lists", "fortran", "strided", "reversed", "offset", "2xN_readonly", "rows_of_bigger", "list_mixed"]
_NO_INJECT = ("1d_readonly", "2xN_readonly", "1d_list", "list_lists", "1d_array_array", "1d_memoryview", "list_mixed")
DTYPES = ["f8", "f8", "f8", "f8", "f4", ">f8", "i2", "i8", "bool", "longdouble"]
FAULT_KINDS = ["nan", "pinf", "ninf", "payload"]
FINITE_NAMES_AUTO = ["Gxx", "Gyy", "Gxy", "ENBW", "psd", "asd", "ps"]
FINITE_NAMES_CROSS = ["Gxx", "Gyy", "Gxy", "Gyx", "ENBW", "csd", "cs", "coh", "ccoh", "Hxy", "Hyx", "tf", "cf", "cf_rad", "cf_deg",
                      "cf_rad_unwrapped", "cf_deg_unwrapped", "GyyCx", "GyyRx", "GyySx"]
ERR_NAMES_AUTO = ["Gxx_dev", "Gyy_dev", "Gxx_error", "Gyy_error", "XY_emp_var", "XY_emp_dev", "Gxx_emp_dev"]
ERR_NAMES_CROSS = ["Gxx_dev", "Gyy_dev", "Gxy_dev", "Hxy_dev", "coh_dev", "Gxx_error", "Gyy_error", "Gxy_error", "Hxy_mag_error",
                   "Hxy_rad_error", "Hxy_deg_error", "coh_error", "XY_emp_var", "XY_emp_dev", "Gxy_emp_dev"]


def budget(tier):
    if tier == "thorough":
        return {"n": 300000, "wall_s": 1200, "workers": 16, "selftest": 32}
    return {"n": 3200, "wall_s": 70, "workers": 16, "selftest": 6}


def prime():
    W.prime_compiled()


# --------------------------------------------------------------------------

def _generate_tiny(rw, rf):
    """Two samples per channel, handed over as a list / tuple of channels (unambiguous: rows are channels) or as a
    2x2 array (documented order: 2xN first).  Only single-bin analyses are possible on such a record."""
    data = {"N": 2, "channels": 2, "recipe": "noise", "rng": rw.randrange(2 ** 31), "scale": rw.choice([1.0, 1e3]), "offset": rw.choice([0.0, 1.0]), "coupling": 0.5}
    layout = rw.choice(["list_arrays", "tuple_arrays", "list_lists", "2xN", "fortran"])
    dtype = rw.choice(["f8", "f8", "f4", "i2"]) if layout != "list_lists" else "f8"
    cfg = {"fs": 2.0, "olap": 0.0, "bmin": 1.0, "Lmin": 1, "Jdes": 3, "Kdes": 1, "order": rw.choice([-1, 0]), "win": rw.choice(["ones", "ramp", "hann"]),
           "psll": 100, "scheduler": "ltf", "num_patch_pts": None, "band": None, "force_target_nf": False,
           "backend": rw.choice(["numba", "numpy"])}
    return {"world": {"world": "real-numba" if cfg["backend"] == "numba" else "numpy", "threads": 2, "chunksize": 0, "chunk": None, "sched": 1},
            "data": data, "cfg": cfg, "layout": layout, "dtype": dtype, "faults": [], "amp_band": None, "tiny": True,
            "ops": [["construct"], ["single", rw.choice([0.0, 0.25, 0.5]), rw.choice([1, 2])]], "clock": None}


def generate(seed, tier):
    rw = R.stream(seed, "workload")
    rf = R.stream(seed, "faults")
    if rw.random() < 0.01:
        return _generate_tiny(rw, rf)
    world = rw.choice(["real-numba"] * 5 + ["numpy"] * 3 + ["sim-numba"] * 1 + ["sim-cuda"] * 1)
    sim = world.startswith("sim")
    N = rw.choice([16, 24, 33, 48, 64]) if sim else rw.choice([16, 33, 64, 100, 150, 200, 300])
    channels = rw.choice([1, 2, 2])
    data = SC.gen_data_spec(rw, N, channels, recipes=SC.RECIPES + ["zeros", "const", "identical", "scaled_copy"])
    data["scale"] = rw.choice([1.0, 1.0, 1e-3, 1e3, 1e6])
    amp_band = None
    if rw.random() < 0.06:      # "any finite input": amplitudes whose squares / fourth powers overflow float64
        amp_band = "overflow"
        # broadband records only, and amplitudes whose statistics are either far below the float64 maximum (1e80, 1e120:
        # only products of statistics overflow) or far above it in every bin (1e200, 1e250: cleaned to 0 by the library);
        # statistics *near* the maximum are the recorded finding non_finite_value:threshold and are not generated
        data["recipe"] = rw.choice(["noise", "noise", "sine+noise"])
        data["scale"] = rw.choice([1e-80, 1e80, 1e120, 1e200, 1e250])
        data["offset"] = 0.0
    cfg = SC.gen_config(rw, N, backends=(W.backend_of({"world": world}),), allow_custom=True)
    if sim:
        cfg["force_target_nf"] = False
        cfg["Jdes"] = min(cfg["Jdes"], 8)
        if cfg["scheduler"] == "custom":
            cfg["custom_plan"] = SC.gen_custom_plan(rw, N, cfg["fs"], max_bins=5, Lcap=40)
    huge = (not sim) and amp_band is None and rw.random() < 0.006
    if huge:        # records longer than 2**20 values: block-wise scans / batched paths inside the library
        N = rw.choice([2 ** 20 + 3, 2 ** 20 + 4097]) if channels == 1 else rw.choice([2 ** 19 + 5, 2 ** 19 + 2051])
        data["N"] = N
        data["recipe"] = rw.choice(["noise", "sine+noise", "randwalk"])
        bins = []
        for j, L_ in enumerate(sorted(rw.sample([512, 4096, 65536, N // 2, N], 3), reverse=True)):
            span = N - L_
            starts = sorted({0, span} | {rw.randrange(0, span + 1) for _ in range(rw.randrange(0, 4))}) if span else [0]
            bins.append([round((0.01 + 0.1 * j + 0.05 * rw.random()) * cfg["fs"], 6), L_, starts])
        cfg.update({"scheduler": "custom", "custom_plan": bins, "Lmin": 1, "band": None, "force_target_nf": False, "olap": 0.5})
    layout = rw.choice(LAYOUTS_2 if channels == 2 else LAYOUTS_1)
    if huge:
        layout = rw.choice(["2xN", "Nx2", "Nx2_view", "fortran"] if channels == 2 else ["1d", "1d", "1d_offset"])
    dtype = rw.choice(DTYPES)
    if huge:
        dtype = rw.choice(["f8", "f8", "f4"])
    if layout in ("list_lists", "1d_list") and dtype != "f8":
        dtype = "f8"
    # fault plan (only float dtypes can carry non-finite values)
    faults = []
    if dtype in ("f8", "f4", ">f8", "longdouble"):
        style = rf.choice(["none", "none", "single", "single", "few", "first", "last", "burst", "channel", "all"])
        def kind():
            return rf.choice(FAULT_KINDS)
        if style == "single":
            faults.append([rf.randrange(channels), rf.randrange(N), kind()])
        elif style == "few":
            for _ in range(rf.randrange(2, 7)):
                faults.append([rf.randrange(channels), rf.randrange(N), kind()])
        elif style == "first":
            faults.append([rf.randrange(channels), 0, kind()])
        elif style == "last":
            faults.append([rf.randrange(channels), N - 1, kind()])
        elif style == "burst":
            a = rf.randrange(N)
            ch = rf.randrange(channels)
            k = kind()
            for i in range(a, min(N, a + rf.randrange(2, max(3, N // 3)))):
                faults.append([ch, i, k])
        elif style == "channel":
            ch = rf.randrange(channels)
            k = kind()
            faults = [[ch, i, k] for i in range(N)]
        elif style == "all":
            k = kind()
            faults = [[ch, i, k] for ch in range(channels) for i in range(N)]
    if huge and dtype in ("f8", "f4", ">f8", "longdouble"):
        k = rf.choice(FAULT_KINDS)
        where = rf.choice(["tail", "tail", "head", "both"])
        faults = []
        for ch in range(channels):
            if where in ("tail", "both"):
                faults += [[ch, N - 1 - i, k] for i in range(rf.randrange(1, 40))]
            if where in ("head", "both"):
                faults += [[ch, i, k] for i in range(rf.randrange(1, 5))]
    nops = rw.randrange(2, 8) if not huge else 2
    ops = [["construct"]]
    for _ in range(nops):
        r = rw.random()
        if r < 0.15:
            ops.append(["plan"])
        elif r < 0.55:
            ops.append(["compute"])
        elif r < 0.8:
            ops.append(["single", round(rw.uniform(0, 0.5), 5), rw.choice([1, 2, 2, 3]) if rw.random() < 0.15 else rw.randrange(1, min(N, 40 if sim else N) + 1)])
        elif r < 0.88:
            ops.append(["construct2"])
        elif r < 0.9 and faults:
            ops.append(["sanitise_fault"])      # the copy made while sanitising fails to allocate, in the next construction
            ops.append(["construct2"])
            ops.append(["compute"])
        elif r < 0.92 and world == "numpy":
            ops.append(["alloc_fault", rw.choice([1, 1, 2, 3])])       # the next NumPy-backend segment gather fails with MemoryError
            ops.append(["compute"])
            ops.append(["compute"])
        else:
            ops.append(["construct_other", rw.randrange(2 ** 31)])     # an analyzer on ANOTHER non-finite record of the same shape
    # the faults may also arrive *during* the history: the caller's buffer is analysed while still clean, then the
    # non-finite samples are written into the same buffer in place, and it is analysed again
    if faults and not huge and rw.random() < 0.3 and layout not in _NO_INJECT:
        k = rw.randrange(1, len(ops) + 1)
        ops.insert(k, ["inject"])
        if not any(o[0] in ("construct", "construct2") for o in ops[k + 1:]):
            ops.insert(k + 1, ["construct2"])
            ops.append(["compute"])
    if amp_band:
        dtype = "f8" if dtype not in ("f8", ">f8", "longdouble") else dtype
    if huge:
        ops = [["construct"], ["compute"], ["single", round(rw.uniform(0, 0.5), 5), rw.choice([4096, 65536, N])]]
    return {"world": W.gen_world(rf, world, 6), "data": data, "cfg": cfg, "layout": layout, "dtype": dtype, "faults": faults,
            "amp_band": amp_band, "ops": ops, "clock": CK.gen_clock(R.stream(seed, "clock"), p_none=0.5)}


# --------------------------------------------------------------------------

def _np_dtype(name):
    return {"f8": np.dtype("<f8"), "f4": np.dtype("<f4"), ">f8": np.dtype(">f8"), "i2": np.dtype("<i2"), "i8": np.dtype("<i8"),
            "bool": np.dtype(bool), "longdouble": np.dtype(np.longdouble)}[name]


def _base(sc):
    return SC.make_record(sc["data"])


def materialise(sc, with_faults=True):
    """Returns (object handed to the analyzer, list of underlying buffers to monitor, logical float64 (2,N)|(N,) with faults as given)."""
    base = _base(sc)                       # float64, finite
    dt = _np_dtype(sc["dtype"])
    if dt.kind in "iu":
        vals = np.clip(np.round(base), np.iinfo(dt).min, np.iinfo(dt).max)
    elif dt.kind == "b":
        vals = base > np.median(base)
    else:
        vals = base
    typed = np.asarray(vals).astype(dt)    # C-contiguous, (2,N) or (N,)
    # inject faults into the typed values
    if sc["faults"] and dt.kind == "f" and with_faults:
        for ch, i, kind in sc["faults"]:
            tgt = typed if typed.ndim == 1 else typed[ch]
            if kind == "nan":
                tgt[i] = np.nan
            elif kind == "pinf":
                tgt[i] = np.inf
            elif kind == "ninf":
                tgt[i] = -np.inf
            else:  # NaN with a payload
                if dt.itemsize == 8:
                    tgt[i] = np.array([0x7FF8DEADBEEF0000 | (i & 0xFFFF)], dtype=np.uint64).view(np.float64)[0]
                else:
                    tgt[i] = np.nan
    logical = np.array(typed, dtype=np.float64)   # what the analyzer should see before sanitising
    lay = sc["layout"]
    N = logical.shape[-1]
    bufs = []

    def own(a):
        bufs.append(a)
        return a

    if lay == "1d":
        obj = own(typed.copy())
    elif lay == "1d_readonly":
        obj = own(typed.copy())
        obj.setflags(write=False)
    elif lay == "1d_list":
        obj = [float(v) for v in typed]
    elif lay == "1d_strided":
        big = own(np.zeros(2 * N + 3, dtype=dt))
        big[1:1 + 2 * N:2] = typed
        obj = big[1:1 + 2 * N:2]
    elif lay == "1d_reversed":
        big = own(typed[::-1].copy())
        obj = big[::-1]
    elif lay == "1d_offset":
        raw = own(np.zeros(N * dt.itemsize + 16, dtype=np.uint8))
        off = 3 if dt.itemsize > 1 else 1
        obj = raw[off:off + N * dt.itemsize].view(dt)
        obj[:] = typed
    elif lay == "1d_array_array":
        # a buffer exporter that is not an ndarray: NumPy wraps its memory without copying
        import array

        code = {"f8": "d", "f4": "f", "i2": "h", "i8": "q"}.get(sc["dtype"])
        if code is None:
            obj = own(typed.copy())
        else:
            obj = array.array(code, typed.tobytes())
            bufs.append(np.frombuffer(obj, dtype=dt))       # monitor: a view of the exporter's own memory
    elif lay == "1d_memoryview":
        keep = own(typed.copy())
        obj = memoryview(keep) if sc["dtype"] in ("f8", "f4", "i2", "i8") else keep
    elif lay == "list_mixed":
        # two channels recorded with different precision: [float32 array, float64 array]
        if sc["dtype"] == "f8":
            a, b = own(typed[0].astype(np.float32)), own(typed[1].copy())
            logical[0] = a.astype(np.float64)
        else:
            a, b = own(typed[0].copy()), own(typed[1].copy())
        obj = [a, b]
    elif lay == "2xN":
        obj = own(typed.copy())
    elif lay == "2xN_readonly":
        obj = own(typed.copy())
        obj.setflags(write=False)
    elif lay == "Nx2":
        obj = own(np.ascontiguousarray(typed.T))
    elif lay == "Nx2_view":
        big = own(typed.copy())
        obj = big.T
    elif lay == "list_arrays":
        a, b = own(typed[0].copy()), own(typed[1].copy())
        obj = [a, b]
    elif lay == "tuple_arrays":
        a, b = own(typed[0].copy()), own(typed[1].copy())
        obj = (a, b)
    elif lay == "list_lists":
        obj = [[float(v) for v in typed[0]], [float(v) for v in typed[1]]]
    elif lay == "fortran":
        obj = own(np.asfortranarray(typed))
    elif lay == "strided":
        big = own(np.zeros((2, 3 * N + 2), dtype=dt))
        big[:, 2:2 + 3 * N:3] = typed
        obj = big[:, 2:2 + 3 * N:3]
    elif lay == "reversed":
        big = own(typed[:, ::-1].copy())
        obj = big[:, ::-1]
    elif lay == "offset":
        raw = own(np.zeros(2 * N * dt.itemsize + 16, dtype=np.uint8))
        off = 5 if dt.itemsize > 1 else 1
        obj = raw[off:off + 2 * N * dt.itemsize].view(dt).reshape(2, N)
        obj[:] = typed
    elif lay == "rows_of_bigger":
        big = own(np.zeros((5, N), dtype=dt))
        big[1] = typed[0]
        big[3] = typed[1]
        obj = big[1:4:2]
    else:
        raise ValueError(lay)
    return obj, bufs, logical


def _execute_tiny(sc, obj, canon, out):
    """2 x 2 records: rows are channels.  Oracle: the reference estimator on the rows (the canonical-layout run would
    share any transposition mistake, so it cannot be the oracle here)."""
    cfg = sc["cfg"]
    _, f, L = sc["ops"][1]
    f = f * cfg["fs"]
    out.count("tiny_2x2_record")
    out.count(f"layout_{sc['layout']}")
    out.nontrivial = True
    with W.analysis_world(sc["world"]):
        try:
            r = SC.build_analyzer(obj, cfg).compute_single_bin(f, L=L)
        except Exception as e:
            out.violate("exception", f"op=single layout={sc['layout']} dtype={sc['dtype']}", f"2x2 record: {type(e).__name__}: {str(e)[:160]}")
            return
    w = SC.reference_window(cfg["win"], cfg["psll"], L)
    starts = np.asarray(r.D[0])
    ref, _, _, _ = RM.ref_stats(canon[0], canon[1], starts, L, w, 2 * np.pi * f / cfg["fs"], cfg["order"])
    tXX, tYY, tmu, _, tM2 = RM.ref_stats.last_tols
    got = (float(r.XX[0]), float(r.YY[0]), complex(r.XY[0]).real, complex(r.XY[0]).imag)
    for nm, g, rr, tol in zip(("XX", "YY", "XY_re", "XY_im"), got, ref[:4], (tXX, tYY, tmu, tmu)):
        if not abs(g - rr) <= tol + 1e-300:
            out.violate("result_depends_on_layout", f"world={sc['world']['world']} field={nm}",
                        f"2x2 record given as {sc['layout']} ({sc['dtype']}): {nm}={g!r}, reference estimator with rows as channels gives {rr!r}")
            break
    out.observe(list(got))
    out.summary = {"tiny": True, "layout": sc["layout"]}


def _snapshot(bufs):
    return [(b.tobytes(), b.flags.writeable, b.flags.c_contiguous, b.flags.f_contiguous, b.shape, b.strides, b.dtype.str) for b in bufs]


def execute(sc, out):
    cfg = sc["cfg"]
    world = sc["world"]["world"]
    late = any(o[0] == "inject" for o in sc["ops"])
    try:
        obj, bufs, logical = materialise(sc, with_faults=not late)
    except Exception as e:  # harness-side layout problem: never a violation
        out.discarded = "layout_unavailable"
        out.extra["discard_reason"] = f"{type(e).__name__}: {e}"[:200]
        return
    canon = np.ascontiguousarray(np.where(np.isfinite(logical), logical, 0.0), dtype=np.float64)
    nfault = int(np.size(logical) - np.count_nonzero(np.isfinite(logical)))
    if sc.get("tiny"):
        return _execute_tiny(sc, obj, canon, out)
    snap0 = _snapshot(bufs)
    aliasing = isinstance(obj, np.ndarray) and obj.dtype == np.float64 and obj.flags.c_contiguous and obj.dtype.isnative
    if aliasing:
        out.count("aliasing_possible")
    if logical.shape[-1] > 2 ** 19:
        out.count("record_longer_than_2^20_values")
    out.count(f"layout_{sc['layout']}")
    out.count(f"dtype_{sc['dtype']}")
    clock = CK.SimClock(sc.get("clock"))
    plain = CK.SimClock(None)
    sess = SS.WorldSession(sc["world"])
    noncanon = not (sc["layout"] in ("1d", "2xN") and sc["dtype"] == "f8")

    in_flight = {"modified": False}

    def _probe():
        if [b[0] for b in _snapshot(bufs)] != [b[0] for b in snap0]:
            in_flight["modified"] = True

    spy = SC.SpyWindow(cfg["win"], _probe) if (cfg["win"] in SC.WINDOWS and logical.shape[-1] <= 4096) else None
    if spy is not None:
        out.count("in_flight_monitor_installed")

    def check_buffer(where):
        now = _snapshot(bufs)
        for k, (a, b) in enumerate(zip(snap0, now)):
            if a[0] != b[0]:
                out.violate("caller_buffer_modified", f"layout={sc['layout']} dtype={sc['dtype']}", f"{where}: bytes of the caller's buffer #{k} changed ({nfault} non-finite samples injected)")
                return False
            if a[1:] != b[1:]:
                out.violate("caller_buffer_flags_changed", f"layout={sc['layout']}", f"{where}: flags/shape/strides of the caller's buffer changed")
                return False
        return True

    afault = W.AllocFault()
    with sess, afault:
        # canonical run (fault-free zero-filled C-contiguous float64), serial schedule, same thread configuration
        try:
            with sess.serial(), plain.installed():
                can_an = SC.build_analyzer(canon.copy(), cfg)
                can_plan = SS.snapshot_plan(can_an.plan())
                can_res = can_an.compute()
                can_raw = SS.raw_fields(can_res)
        except Exception as e:
            out.discarded = "plan_failure"
            out.count("discarded_plan_failure")
            out.extra["discard_reason"] = f"{type(e).__name__}: {e}"[:200]
            return
        nf = len(can_raw["f"])
        # was any fault inside a used segment?
        if nfault:
            used = np.zeros(logical.shape[-1], dtype=bool)
            for L, D in zip(can_raw["L"], can_raw["D"]):
                for s0 in np.asarray(D):
                    used[int(s0):int(s0) + int(L)] = True
            bad = ~np.isfinite(logical)
            badpos = bad if bad.ndim == 1 else bad.any(axis=0)
            if np.any(badpos & used):
                out.count("data_fault_in_used_segment")
                out.nontrivial = True
            for _, _, k in sc["faults"][:1]:
                out.count("data_fault_" + k)
        if noncanon:
            out.nontrivial = True
        _check_finite(can_res, sc, out, "canonical")

        ans = []
        pending_fault = None
        pending_sanitise_fault = False
        # a caller that runs with deprecation warnings of the library's own code escalated to errors (pytest -W error,
        # python -W error::DeprecationWarning:speckit): the analysis of a non-finite record must still complete
        strict = sc.get("seed", 0) % 5 == 1
        if strict:
            out.count("deprecations_are_errors_caller")
        # ... and a caller that has silenced logging (logging.disable(WARNING)): the sanitising must not hang on the message
        quiet = sc.get("seed", 0) % 7 == 3
        if quiet:
            out.count("logging_silenced_caller")
        for op in sc["ops"]:
            kind = op[0]
            out.sim_steps += 1
            try:
                with clock.installed(), _strict_caller(strict), _quiet_caller(quiet):
                    if kind == "inject":
                        # the caller writes the non-finite samples into the SAME buffer, in place, after it was analysed clean
                        for ch, i, fk in sc["faults"]:
                            val = {"nan": np.nan, "pinf": np.inf, "ninf": -np.inf}.get(fk, np.nan)
                            if isinstance(obj, (list, tuple)):
                                obj[ch][i] = val
                            elif obj.ndim == 1:
                                obj[i] = val
                            elif obj.shape[0] == 2 and sc["layout"] not in ("Nx2", "Nx2_view"):
                                obj[ch, i] = val
                            else:
                                obj[i, ch] = val
                        if isinstance(obj, (list, tuple)):
                            logical = np.array([np.asarray(o_, dtype=np.float64) for o_ in obj])
                        else:
                            logical = np.array(obj, dtype=np.float64)
                            if logical.ndim == 2 and sc["layout"] in ("Nx2", "Nx2_view"):
                                logical = np.ascontiguousarray(logical.T)
                        canon = np.ascontiguousarray(np.where(np.isfinite(logical), logical, 0.0), dtype=np.float64)
                        nfault = int(np.size(logical) - np.count_nonzero(np.isfinite(logical)))
                        snap0[:] = _snapshot(bufs)
                        with sess.serial(), plain.installed():
                            can_res = SC.build_analyzer(canon.copy(), cfg).compute()
                            can_raw = SS.raw_fields(can_res)
                        out.count("data_fault_injected_mid_history")
                        if nfault:
                            out.nontrivial = True
                        ans = []            # analyzers built on the clean content describe the old content
                        continue
                    if kind == "sanitise_fault":
                        pending_sanitise_fault = True      # armed only around the library's next construction
                        continue
                    if kind == "alloc_fault":
                        pending_fault = op[1]        # armed only around the library's own next compute / single-bin call
                        out.count("alloc_fault_armed")
                        continue
                    if kind == "construct_other":
                        # built but never used: its sanitised record must not leak into the analyzers of the main record
                        dec = np.random.default_rng(op[1]).normal(size=canon.shape) * 911.0
                        dec.flat[:: max(1, dec.size // 7)] = np.nan
                        decoy = SC.build_analyzer(dec, cfg)
                        out.count("decoy_analyzer_on_other_nonfinite_record")
                        del decoy
                        continue
                    if kind in ("construct", "construct2"):
                        from dsim import parfor as _pf

                        if pending_sanitise_fault and _pf.LIBRARY_NUMPY is not None:
                            _pf.LIBRARY_NUMPY.arm_fault("nan_to_num", 1)
                            out.count("sanitise_alloc_fault_armed")
                        pending_sanitise_fault = False
                        try:
                            ans.append(SC.build_analyzer(obj, cfg, spy))
                        finally:
                            if _pf.LIBRARY_NUMPY is not None:
                                _pf.LIBRARY_NUMPY.disarm_faults()
                        where = "after constructing the analyzer"
                    elif not ans:
                        continue
                    elif kind == "plan":
                        p = ans[-1].plan()
                        d = SS.plan_equal(p, can_plan)
                        if d is not None:
                            out.violate("plan_depends_on_layout", f"key={d.split(' ')[0]}", f"layout={sc['layout']} dtype={sc['dtype']}: plan differs from the canonical layout's in {d}")
                        where = "after plan()"
                    elif kind == "compute":
                        if pending_fault:
                            afault.arm(pending_fault)
                            pending_fault = None
                        try:
                            r = ans[-1].compute()
                        finally:
                            afault.disarm()
                        raw = SS.raw_fields(r)
                        d = _diff_vs_canonical(raw, can_raw, world, canon, cfg, out)
                        if d is not None:
                            cls = "result_differs_from_zero_filled" if nfault else "result_depends_on_layout"
                            out.violate(cls, f"world={world} field={d}", f"layout={sc['layout']} dtype={sc['dtype']} faults={nfault}: compute() differs from the canonical zero-filled float64 run in {d}")
                        out.observe([raw[k] for k in SS.RAW_CMP])
                        _check_finite(r, sc, out, "compute")
                        where = "after compute()"
                    elif kind == "single":
                        f = op[1] * cfg["fs"]
                        L = min(op[2], logical.shape[-1])
                        if pending_fault:
                            afault.arm(pending_fault)
                            pending_fault = None
                        try:
                            r = ans[-1].compute_single_bin(f, L=L)
                        finally:
                            afault.disarm()
                        with sess.serial(), plain.installed():
                            rc = SC.build_analyzer(canon.copy(), cfg).compute_single_bin(f, L=L)
                        raw, craw = SS.raw_fields(r), SS.raw_fields(rc)
                        d = _diff_vs_canonical(raw, craw, world, canon, cfg, out)
                        if d is not None:
                            cls = "result_differs_from_zero_filled" if nfault else "result_depends_on_layout"
                            out.violate(cls, f"world={world} field={d}", f"layout={sc['layout']} dtype={sc['dtype']} faults={nfault}: compute_single_bin differs from the canonical run in {d}")
                        out.observe([raw[k] for k in SS.RAW_CMP])
                        _check_finite(r, sc, out, "single")
                        where = "after compute_single_bin()"
                    else:
                        continue
            except MemoryError as e:
                if "injected" in str(e):
                    out.count("alloc_fault_fired_and_propagated")
                    where = f"after {kind} failed with the injected MemoryError"
                else:
                    raise
            except Exception as e:
                from dsim.sched import HarnessError

                if isinstance(e, HarnessError):
                    raise
                out.violate("exception", f"op={kind} layout={sc['layout']} dtype={sc['dtype']}", f"{kind} raised {type(e).__name__}: {str(e)[:200]} (the canonical layout computes fine)")
                where = f"after failing {kind}"
            afault.disarm()
            if in_flight["modified"]:
                out.violate("caller_buffer_modified_in_flight", f"layout={sc['layout']} dtype={sc['dtype']}",
                            f"during {kind}: the caller's buffer had other bytes while the library was calling the user's window function")
                break
            if not check_buffer(where):
                break
    sess.absorb(out)
    out.sim_time_s += clock.elapsed()
    for k, v in clock.fired.items():
        out.count(k, v)
    out.count("world_" + world)
    out.summary = {"world": world, "layout": sc["layout"], "dtype": sc["dtype"], "faults": nfault, "ops": [o[0] for o in sc["ops"]], "nf": nf}


def _diff_vs_canonical(raw, can_raw, world, canon, cfg, out):
    """First field in which a result differs from the canonical run.  Bitwise everywhere, except that in the
    real-numba world the four statistics may differ within twice the rounding budget of the recurrence: the compiled
    fastmath kernels are not bit-reproducible across array flavours / thread configurations (recorded C14 finding)."""
    d = SS.diff_fields(raw, can_raw, SS.RAW_CMP)
    if d is None or world != "real-numba" or d not in ("XX", "YY", "XY", "M2"):
        return d
    for nm in [n for n in SS.RAW_CMP if n not in ("XX", "YY", "XY", "M2")]:
        if not SS.eq(raw[nm], can_raw[nm]):
            return nm
    xs = (canon[0], canon[1]) if canon.ndim == 2 else (canon, None)
    for j in range(len(raw["f"])):
        a4 = [raw[nm][j] for nm in ("XX", "YY", "XY", "M2")]
        b4 = [can_raw[nm][j] for nm in ("XX", "YY", "XY", "M2")]
        if all((a == b) or (a != a and b != b) for a, b in zip(a4, b4)):
            continue
        Lj = int(raw["L"][j])
        wj = SC.reference_window(cfg["win"], cfg["psll"], Lj)
        RM.ref_stats(xs[0], xs[1], np.asarray(raw["D"][j]), Lj, wj, 2 * np.pi * float(raw["f"][j]) / cfg["fs"], cfg["order"])
        tXX, tYY, tmu, _, tM2 = RM.ref_stats.last_tols
        for nm, a, b, tol in zip(("XX", "YY", "XY", "M2"), a4, b4, (tXX, tYY, tmu, tM2)):
            if a == b or (a != a and b != b):
                continue
            if not abs(a - b) <= 2.0 * tol:
                return nm
    out.count("real_numba_ulp_difference_within_budget")
    return None


class _quiet_caller:
    def __init__(self, on):
        self.on = on
        self.prev = None

    def __enter__(self):
        if self.on:
            import logging

            self.prev = logging.root.manager.disable
            logging.disable(logging.WARNING)
        return self

    def __exit__(self, *exc):
        if self.on:
            import logging

            logging.disable(self.prev if self.prev is not None else logging.NOTSET)
        return False


class _strict_caller:
    def __init__(self, on):
        self.on = on
        self.cm = None

    def __enter__(self):
        if self.on:
            import warnings

            self.cm = warnings.catch_warnings()
            self.cm.__enter__()
            for cat in (DeprecationWarning, PendingDeprecationWarning):
                warnings.filterwarnings("error", category=cat, module=r"speckit(\.|$)")
        return self

    def __exit__(self, *exc):
        if self.cm is not None:
            self.cm.__exit__(*exc)
        return False


def _check_finite(res, sc, out, where):
    iscsd = sc["data"]["channels"] == 2
    names = FINITE_NAMES_CROSS if iscsd else FINITE_NAMES_AUTO
    # a caller that traps floating-point errors (np.seterr(divide="raise", invalid="raise")): the densities, coherence
    # and transfer function of a finite record are specified to be finite, so evaluating them must not divide 0 by 0
    trap = (sc.get("seed", 0) % 4 == 0) and sc.get("amp_band") is None
    if trap:
        out.count("fp_trapping_caller")
    with np.errstate(all="ignore"):
        for n in names:
            try:
                if trap:
                    with np.errstate(divide="raise", invalid="raise"):
                        v = getattr(res, n)
                else:
                    v = getattr(res, n)
            except Exception as e:
                out.violate("exception", f"getattr:{n}", f"{where}: {type(e).__name__}: {str(e)[:120]}")
                continue
            if v is None:
                continue
            v = np.asarray(v)
            if not np.all(np.isfinite(v)):
                j = int(np.nonzero(~np.isfinite(v))[0][0])
                band = sc.get("amp_band")
                cls = "non_finite_value" if band in (None, "overflow") else f"non_finite_value:{band}"
                out.violate(cls, n, f"{where}: {n}[{j}]={v[j]!r} for a finite input (recipe {sc['data']['recipe']}, scale {sc['data']['scale']:g}, order {sc['cfg']['order']})")
        coh = np.asarray(res.coh) if iscsd else np.ones(len(res.f))
        pos = coh > 0
        for n in (ERR_NAMES_CROSS if iscsd else ERR_NAMES_AUTO):
            try:
                v = getattr(res, n)
            except Exception as e:
                out.violate("exception", f"getattr:{n}", f"{where}: {type(e).__name__}: {str(e)[:120]}")
                continue
            if v is None:
                continue
            v = np.asarray(v)
            if v.shape == pos.shape and not np.all(np.isfinite(v[pos])):
                band = sc.get("amp_band")
                out.violate("non_finite_error_bar" if band in (None, "overflow") else f"non_finite_error_bar:{band}", n, f"{where}: {n} is not finite at a bin with positive coherence (recipe {sc['data']['recipe']})")
        # the values again, now that the error bars have been read (whatever they did to shared arrays)
        for n in names:
            try:
                v = getattr(res, n)
            except Exception:
                continue
            if v is not None and not np.all(np.isfinite(np.asarray(v))):
                band = sc.get("amp_band")
                out.violate("non_finite_value" if band in (None, "overflow") else f"non_finite_value:{band}", n,
                            f"{where}: {n} is no longer finite after the error bars were read (recipe {sc['data']['recipe']})")
                break
    out.count("oracle_finite")


# --------------------------------------------------------------------------

def size(sc):
    return len(sc["ops"]) + len(sc["faults"])


def shrink_candidates(sc):
    yield from S.drop_chunks(sc, "ops", min_len=1)
    yield from S.drop_chunks(sc, "faults")
    if sc.get("clock"):
        c = copy.deepcopy(sc); c["clock"] = None; yield c
    if sc["world"]["world"] in ("sim-numba", "sim-cuda") and not sc["world"].get("serial"):
        c = copy.deepcopy(sc); c["world"]["serial"] = True; yield c
    canon_layout = "2xN" if sc["data"]["channels"] == 2 else "1d"
    if sc["layout"] != canon_layout:
        c = copy.deepcopy(sc); c["layout"] = canon_layout; yield c
    if sc["dtype"] != "f8":
        c = copy.deepcopy(sc); c["dtype"] = "f8"; yield c
    if sc["cfg"].get("band") is not None:
        c = copy.deepcopy(sc); c["cfg"]["band"] = None; yield c
    for N in (16, 24, 33, 64):
        if N < sc["data"]["N"] and sc["cfg"]["scheduler"] != "custom":
            c = copy.deepcopy(sc); c["data"]["N"] = N
            c["cfg"]["Lmin"] = min(c["cfg"]["Lmin"], N // 2)
            c["faults"] = [f for f in c["faults"] if f[1] < N]
            c["ops"] = [o if o[0] != "single" else ["single", o[1], min(o[2], N)] for o in c["ops"]]
            yield c
    if sc["data"]["recipe"] != "noise":
        c = copy.deepcopy(sc); c["data"]["recipe"] = "noise"; yield c
    for k, v in (("order", 0), ("win", "hann"), ("olap", 0.5), ("Jdes", 5), ("force_target_nf", False)):
        if sc["cfg"].get(k) != v:
            c = copy.deepcopy(sc); c["cfg"][k] = v; yield c
