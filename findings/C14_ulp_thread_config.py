"""Demonstration of the recorded C14 finding on the real code (no harness involved).

The compiled Numba kernels (parallel=True, fastmath=True) return per-segment values that differ in the last bit
depending on numba.set_num_threads / numba.set_parallel_chunksize: LLVM vectorises across prange iterations, and
which iterations fall into SIMD lanes or into the scalar remainder depends on how the range is partitioned.

    cd /repo && /venv/bin/python /verif/findings/C14_ulp_thread_config.py
"""
import numpy as np
import speckit  # noqa: F401  (sets the threading-layer defaults)
import numba
from speckit import core

x = np.random.default_rng(1372725483).normal(size=33) * 1e6 - 5.0
starts = np.array([int(round(i * 30 / 20)) for i in range(21)], dtype=np.int64)
w = np.kaiser(4, 2.163 * np.pi)[:-1]
omega = 2 * np.pi * 0.45196
seen = {}
for threads in (1, 2, 3, 5):
    for chunk in (0, 1, 2):
        numba.set_num_threads(threads)
        numba.set_parallel_chunksize(chunk)
        seen[(threads, chunk)] = core._stats_detrend0_auto(x, starts, 3, w, omega)[0]
numba.set_parallel_chunksize(0)
vals = sorted(set(seen.values()))
for k, v in sorted(seen.items()):
    print(k, repr(v))
print("distinct values:", vals)
raise SystemExit(0 if len(vals) == 1 else 1)
