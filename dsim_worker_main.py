"""Entry point of every worker process (run as a script, never imported)."""
import os
import sys

sys.path.insert(0, os.path.dirname(os.path.abspath(__file__)))
repo = os.environ.get("VERIF_REPO", "/repo")
if repo not in sys.path:
    sys.path.insert(1, repo)
# Python-level thread pools go under the simulator *before* the library binds the names
from dsim import simexec  # noqa: E402

simexec.install()
# speckit must be imported before numba so that its threading-layer default applies
import speckit  # noqa: E402,F401

import numba  # noqa: E402

# 16 worker processes share 16 cores: keep the default team small; scenarios of the
# real-numba world raise it explicitly (worlds.real_numba) up to NUMBA_NUM_THREADS.
numba.set_num_threads(2)

from dsim import parfor as _parfor  # noqa: E402

_parfor.poison_library_namespaces()

from dsim import worker  # noqa: E402

if __name__ == "__main__":
    sys.exit(worker.main(sys.argv))
