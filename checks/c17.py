"""C17 - noise generators are seed-reproducible continuous streams.

Simulated dimension: the *request history* against carried state (IIR delay
lines, private RNG, prefetch buffer) of several live generator instances whose
operations are interleaved in seeded order; degenerate requests (empty, single
sample, prefetch-buffer edge) are the injected faults, placed between
state-carrying requests.  Oracles: one-shot same-seed stream (bitwise), twins,
independent direct-form IIR cascade (scipy.signal.lfilter).
"""
import copy

import numpy as np

from dsim import rng as R
from dsim import shrink as S

PROPERTY = "C17"
RULE = (
    "one scenario = 2-5 live generators (white/red/alpha/pink, some same-seed twins, some created mid-way) and a "
    "seeded interleaved history of get_series(n)/get_sample-run requests, n drawn from {0,1,2,3,7,64,4095,4096,4097,"
    "random<=10^4}; non-trivial = some state-carrying (coloured) generator received >=2 non-empty requests with an "
    "empty or single-sample request between them; distinct = distinct scenario digest (generators+history)"
)
COMPONENTS = {
    "real": ["speckit.noise.white_noise/red_noise/alpha_noise/pink_noise (constructors, settling, get_series, get_sample)",
             "speckit.noise._numba_lfilter_cascade (compiled and py_func)", "numpy Generator", "scipy.signal.lfilter inside red_noise"],
    "simulated": ["request history and instance interleaving (seeded)", "white-noise source recorded at the seam for the direct-form reference"],
    "stub": [],
}
ASSUMPTIONS = [
    "numpy.random.Generator.normal is itself a continuous stream (size a then b == size a+b); relied on by the library and the oracle alike",
    "scipy.signal.lfilter is the trusted direct-form reference",
    "mixed get_sample/get_series sequences are only compared between same-seed twins (transparency of the prefetch is not promised)",
]

SPECIAL_N = [0, 0, 0, 1, 1, 2, 3, 7, 64, 1024, 2048, 2048, 4095, 4096, 4096, 4097, 8191, 8192, 8192, 8193, 16384]
KINDS = ["white", "red", "alpha", "pink"]


def budget(tier):
    # some workers run with the Numba JIT disabled (interpreted kernels / any pure-Python fallback the library may have)
    variants = [{}] * 6 + [{"NUMBA_DISABLE_JIT": "1"}, {"PYTHONOPTIMIZE": "1"}]      # ... and one with assert statements stripped (-O)
    if tier == "thorough":
        return {"n": 400000, "wall_s": 900, "workers": 16, "selftest": 48, "env_variants": variants}
    return {"n": 4800, "wall_s": 50, "workers": 16, "selftest": 6, "env_variants": variants}


def _nojit():
    import os

    return os.environ.get("NUMBA_DISABLE_JIT") == "1"


def prime():
    from speckit import noise

    g = noise.alpha_noise(10.0, 0.1, 4.0, 1.0, seed=1)
    g.get_series(4)


# --------------------------------------------------------------------------
# generation
# --------------------------------------------------------------------------

def _gen_spec(rw, kind):
    fs = rw.choice([1.0, 2.0, 10.0, 100.0, 1000.0, round(rw.uniform(0.5, 500.0), 3)])
    # seeds: mostly arbitrary, sometimes the edge values a "falsy"/overflow bug would trip over
    seed = rw.choice([0, 0, 1, 2 ** 32 - 1, 2 ** 32, 2 ** 63]) if rw.random() < 0.15 else rw.randrange(0, 2 ** 32)
    spec = {"kind": kind, "fs": fs, "seed": seed}
    if seed < 2 ** 63 and rw.random() < 0.15:
        spec["seed_type"] = "np.int64"          # a seed NumPy accepts that is not a Python int
    elif rw.random() < 0.08:
        spec["seed_type"] = "SeedSequence"      # ... or a SeedSequence object, which same-seed instances of one scenario SHARE
    if kind == "white":
        spec["psd"] = rw.choice([1.0, 0.01, 100.0, round(rw.uniform(0.1, 10), 3)])
    else:
        ratio = rw.choice([20, 50, 200, 1000, round(rw.uniform(10, 2000), 1)])
        spec["fmin"] = fs / ratio / 2.0
        spec["init"] = rw.random() < 0.6
        if rw.random() < 0.08:      # long-memory band: corner five to seven decades below the sampling rate (never settled: too long)
            spec["fmin"] = fs / rw.choice([1e5, 1e6, 1e7])
            spec["init"] = False
        if kind in ("alpha", "pink"):
            spec["fmax"] = fs / rw.choice([2.0, 2.5, 4.0, 10.0])
            if spec["fmax"] <= spec["fmin"] * 1.5:
                spec["fmin"] = spec["fmax"] / 50.0
            if kind == "alpha":
                spec["alpha"] = rw.choice([0.01, 0.5, 1.0, 1.5, 2.0, round(rw.uniform(0.01, 2.0), 3)])
            if rw.random() < 0.12:
                # narrow band: a cascade of one, two or three sections (the section count follows log10(fmax/fmin))
                spec["fmin"] = spec["fmax"] / rw.choice([1.2, 1.5, 1.66, 1.7, 2.5, 4.0])
    return spec


HUGE_N = [2 ** 19, 2 ** 20 - 1, 2 ** 20, 2 ** 20 + 5, 600_000]


def _gen_n(rw):
    r = rw.random()
    if r < 0.004:
        return rw.choice(HUGE_N)      # block sizes at which a library might switch to another generation path
    if r < 0.55:
        return rw.choice(SPECIAL_N)
    if r < 0.85:
        return rw.randrange(1, 200)
    return rw.randrange(200, 10001)


def generate(seed, tier):
    rw = R.stream(seed, "workload")
    ngen = rw.randrange(2, 6)
    gens = []
    per = []  # per-instance op list
    for g in range(ngen):
        if gens and rw.random() < 0.3:
            src = rw.randrange(len(gens))
            spec = copy.deepcopy(gens[src])
            spec["twin_of"] = src if "twin_of" not in gens[src] else gens[src]["twin_of"]
            spec["mode"] = gens[src]["mode"]
            gens.append(spec)
            per.append(copy.deepcopy(per[src]))
            continue
        if gens and rw.random() < 0.12:
            # a "cousin": another generator's parameters with exactly one of them changed (caches keyed too coarsely)
            src = rw.randrange(len(gens))
            spec = {k: v for k, v in gens[src].items() if k not in ("twin_of", "mode", "cousin_of")}
            which = rw.choice([k for k in ("fs", "fmin", "fmax", "alpha", "seed", "psd") if k in spec])
            if which == "fs":
                spec["fs"] = spec["fs"] * rw.choice([2.0, 2.5, 10.0])
            elif which == "seed":
                spec["seed"] = spec["seed"] + 1
            elif which == "alpha":
                spec["alpha"] = round(min(2.0, max(0.01, spec["alpha"] * rw.choice([0.5, 0.9, 1.1]))), 4)
            elif which == "fmax":
                if spec["fmax"] * 0.8 > spec["fmin"] * 1.1:
                    spec["fmax"] = spec["fmax"] * 0.8
                else:
                    spec["fmin"] = spec["fmin"] * 0.5        # narrow band: keep it a band (fmax > fmin), move the other corner
            else:
                spec[which] = spec[which] * rw.choice([0.5, 0.9])
            spec["cousin_of"] = src
            kind = spec["kind"]
        else:
            kind = rw.choice(KINDS + ["red", "alpha"])
            spec = _gen_spec(rw, kind)
        mode = rw.choice(["series", "series", "series", "samples", "mixed"])
        spec["mode"] = mode
        nops = rw.randrange(2, 14)
        ops = []
        if spec.get("fmin") is not None and spec["fmin"] < spec["fs"] * 2e-5 and mode == "series" and rw.random() < 0.5:
            ops.append(["series", rw.choice([131072, 200000, 262144])])       # one long block on a long-memory band
        for _ in range(nops):
            if rw.random() < 0.03:
                # a request the generator refuses (negative / fractional / missing size): it fails, the stream goes on
                ops.append(["bad", rw.choice([-1, -1, 2.5, None])])
            if mode == "series" or (mode == "mixed" and rw.random() < 0.5):
                ops.append(["series", _gen_n(rw)])
            else:
                ops.append(["samples", rw.choice([1, 1, 2, 3, 17, 4095, 4096, 4097, rw.randrange(1, 300)])])
        gens.append(spec)
        per.append(ops)
    # interleave: seeded merge of the per-instance lists; late creation for some
    created_late = [g > 0 and rw.random() < 0.35 for g in range(ngen)]
    cursors = [0] * ngen
    ops = []
    alive = [not created_late[g] for g in range(ngen)]
    pending = [g for g in range(ngen) if created_late[g]]
    style = rw.choice(["uniform", "uniform", "bursty", "roundrobin"])
    cur = 0
    while True:
        cands = [g for g in range(ngen) if alive[g] and cursors[g] < len(per[g])]
        if pending and (not cands or rw.random() < 0.15):
            g = pending.pop(0)
            ops.append(["spawn", g])
            alive[g] = True
            continue
        if not cands:
            break
        if style == "uniform":
            g = rw.choice(cands)
        elif style == "roundrobin":
            cur = (cur + 1) % ngen
            while cur not in cands:
                cur = (cur + 1) % ngen
            g = cur
        else:
            if cur not in cands or rw.random() < 0.3:
                cur = rw.choice(cands)
            g = cur
        kind, n = per[g][cursors[g]]
        cursors[g] += 1
        ops.append([kind, g, n])
    # a fork in the middle of a get_sample run: the child continues the stream (rare; POSIX only)
    if rw.random() < 0.02:
        cand = [g for g, sp in enumerate(gens) if sp["mode"] == "samples"]
        if cand:
            ops.append(["fork_samples", rw.choice(cand), rw.choice([1, 5, 300])])
    sc = {"gens": gens, "ops": ops, "initially_alive": [not c for c in created_late]}
    if rw.random() < 0.12:
        # independent generators consumed by concurrent caller threads (simulated: one runs at a time, pre-empted at
        # source lines of speckit/noise.py in a seeded order); each stream must be what it is when consumed alone
        k = min(ngen, rw.choice([2, 2, 3]))
        sc["concurrent"] = {
            "gens": rw.sample(range(ngen), k),
            "reqs": [[[rw.choice(["series", "series", "samples"]), rw.choice([0, 1, 2, 7, 33, 120, 300])] for _ in range(rw.randrange(1, 4))] for _ in range(k)],
            "sched": rw.randrange(2 ** 31),
        }
    # same seed in a *fresh interpreter* (other hash salt): rarely in quick (a subprocess costs ~2 s), often in thorough
    cousins = [g for g, sp in enumerate(gens) if "cousin_of" in sp]
    if cousins and rw.random() < (0.3 if tier == "thorough" else 0.15):
        sc["xproc"] = rw.choice(cousins)            # its stream must not depend on what was built before it in this process
    elif rw.random() < (0.012 if tier == "thorough" else 0.006):
        sc["xproc"] = rw.randrange(len(gens))
    return sc


# --------------------------------------------------------------------------
# execution
# --------------------------------------------------------------------------

_SEEDSEQ = {}


def _build(spec):
    from speckit import noise

    k = spec["kind"]
    if spec.get("seed_type") == "np.int64":
        spec = dict(spec, seed=np.int64(spec["seed"]))
    elif spec.get("seed_type") == "SeedSequence":
        # one object per seed value and scenario: twins, the one-shot reference and the generator itself are all built
        # from the SAME caller-owned object, which the library must therefore not use up
        ss = _SEEDSEQ.get(spec["seed"])
        if ss is None:
            ss = _SEEDSEQ[spec["seed"]] = np.random.SeedSequence(spec["seed"])
        spec = dict(spec, seed=ss)
    if k == "white":
        return noise.white_noise(spec["fs"], psd=spec["psd"], seed=spec["seed"])
    if k == "red":
        return noise.red_noise(spec["fs"], spec["fmin"], init_filter=spec["init"], seed=spec["seed"])
    if k == "alpha":
        return noise.alpha_noise(spec["fs"], spec["fmin"], spec["fmax"], spec["alpha"], init_filter=spec["init"], seed=spec["seed"])
    return noise.pink_noise(spec["fs"], spec["fmin"], spec["fmax"], init_filter=spec["init"], seed=spec["seed"])


class _Tap:
    """Records the white blocks handed to the colouring filter (seam for the direct-form oracle)."""

    def __init__(self, inner):
        self._inner = inner
        self.blocks = []

    def get_series(self, npts):
        b = self._inner.get_series(npts)
        self.blocks.append(np.array(b, dtype=np.float64, copy=True))
        return b

    def __getattr__(self, name):
        return getattr(self._inner, name)


def _install_tap(inst, spec):
    """Returns (tap, initial filter state, coefficient arrays) or None if the seam is not there."""
    try:
        if spec["kind"] == "white":
            return None
        wn = inst._whitenoise
        if spec["kind"] == "red":
            st = np.array(inst._zi, dtype=np.float64, copy=True)
            co = (np.array(inst._a, dtype=np.float64), np.array(inst._b, dtype=np.float64))
        else:
            st = np.array(inst._zi_states, dtype=np.float64, copy=True)
            co = (np.array(inst._a_coeffs, dtype=np.float64), np.array(inst._b_coeffs, dtype=np.float64))
        sc = float(inst._scaling)
        tap = _Tap(wn)
        inst._whitenoise = tap
        return tap, st, co, sc
    except AttributeError:
        return None


def _direct_form(kind, white, st, co, scaling):
    from scipy.signal import lfilter

    if kind == "red":
        a, b = co
        if white.size == 0:
            return white.copy()
        y, _ = lfilter(a, b, white, zi=st)
        return y * scaling
    a, b = co
    y = white.copy()
    if y.size == 0:
        return y
    for i in range(a.shape[0]):
        y, _ = lfilter(a[i], b[i], y, zi=st[i])
    return y * scaling


def _bits_equal(a, b):
    a = np.asarray(a)
    b = np.asarray(b)
    return a.shape == b.shape and a.dtype == b.dtype and a.tobytes() == b.tobytes()


def _first_diff(a, b):
    a = np.asarray(a, dtype=np.float64).ravel()
    b = np.asarray(b, dtype=np.float64).ravel()
    if a.shape != b.shape:
        return f"len {a.shape} vs {b.shape}"
    d = np.nonzero(~((a == b) | (np.isnan(a) & np.isnan(b))))[0]
    if d.size == 0:
        return "dtype/bytes differ"
    i = int(d[0])
    return f"first difference at sample {i}: {a[i]!r} vs {b[i]!r} ({d.size} of {a.size} differ)"


def execute(sc, out):
    gens = sc["gens"]
    ng = len(gens)
    _SEEDSEQ.clear()
    if any(g.get("seed_type") == "SeedSequence" for g in gens):
        out.count("seed_is_shared_SeedSequence_object")
    inst = [None] * ng
    taps = [None] * ng
    got = [[] for _ in range(ng)]     # list of (kind, n, array)
    hist = [[] for _ in range(ng)]    # (kind, n)
    dead = [False] * ng

    def spawn(g):
        try:
            inst[g] = _build(gens[g])
        except Exception as e:  # constructor failing for admissible parameters
            out.violate("exception", gens[g]["kind"], f"constructor raised {type(e).__name__}: {e}")
            dead[g] = True
            return
        taps[g] = _install_tap(inst[g], gens[g])

    for g in range(ng):
        if sc["initially_alive"][g]:
            spawn(g)
    last_g = None
    for op in sc["ops"]:
        if op[0] == "spawn":
            g = op[1]
            if inst[g] is None and not dead[g]:
                spawn(g)
                if any(hist[h] for h in range(ng) if h != g):
                    out.count("twin_created_midway" if "twin_of" in gens[g] else "instance_created_midway")
            continue
        kind, g, n = op
        if g >= ng or inst[g] is None or dead[g]:
            continue
        if kind != "bad" and _nojit() and n > 20000:
            n = 20000 + (n % 7)          # interpreted kernels: keep the long requests affordable
        if kind == "fork_samples":
            _fork_samples(inst[g], gens[g], n, got[g], hist[g], out)
            continue
        if kind == "bad":
            try:
                r_ = inst[g].get_series(n)
            except Exception:
                out.count("refused_request_between_requests")
                if hist[g]:
                    out.nontrivial = True
            else:
                # a library that serves such a request defines its own meaning for it: this history says nothing then
                out.count("odd_request_served")
                if not (isinstance(r_, np.ndarray) and r_.size == 0):
                    dead[g] = True
            continue
        if last_g is not None and last_g != g:
            out.count("instances_interleaved")
        last_g = g
        site = gens[g]["kind"]
        try:
            if kind == "series":
                a = inst[g].get_series(n)
                if not isinstance(a, np.ndarray) or a.shape != (n,) or a.dtype != np.float64:
                    out.violate("shape_dtype", site, f"get_series({n}) returned {type(a).__name__} shape={getattr(a, 'shape', None)} dtype={getattr(a, 'dtype', None)}")
                    dead[g] = True
                    continue
                # keep the returned array itself (no defensive copy): a caller concatenates the blocks later, so a block
                # that the generator recycles for a later request corrupts the stream the caller sees
            elif (n + len(hist[g])) % 6 == 0:
                # the run is continued from another thread (strictly sequential hand-off: start, join)
                import threading

                box = []
                th = threading.Thread(target=lambda: box.append([inst[g].get_sample() for _ in range(n)]))
                th.start()
                th.join()
                a = np.array(box[0] if box else [], dtype=np.float64)
                out.count("sample_run_continued_in_other_thread")
                if a.shape != (n,):
                    raise RuntimeError("get_sample failed in the helper thread")
            else:
                a = np.array([inst[g].get_sample() for _ in range(n)], dtype=np.float64)
        except Exception as e:
            out.violate("exception", site, f"{kind}({n}) raised {type(e).__name__}: {e}")
            dead[g] = True
            continue
        # fault / reach counters: degenerate request *between* state-carrying requests
        prev_nonempty = any(h[1] > 0 for h in hist[g])
        if kind == "series" and n == 0:
            out.count("req_empty")
        if n == 1:
            out.count("req_single")
        if n in (4095, 4096, 4097):
            out.count("req_buffer_edge")
        hist[g].append((kind, n))
        got[g].append(a)
        out.sim_time_s += n / float(gens[g]["fs"])
        out.sim_steps += 1
        del prev_nonempty

    # ---- oracles over the recorded history ---------------------------------
    for g in range(ng):
        if inst[g] is None or dead[g] or not hist[g]:
            continue
        spec = gens[g]
        site = spec["kind"]
        kinds = {h[0] for h in hist[g]}
        total = sum(h[1] for h in hist[g])
        cat = np.concatenate(got[g]) if got[g] else np.zeros(0)
        out.observe(cat)
        # non-trivial rule
        if site != "white":
            ns = [h[1] for h in hist[g]]
            for i in range(len(ns)):
                if ns[i] <= 1 and any(x > 0 for x in ns[:i]) and any(x > 0 for x in ns[i + 1:]):
                    out.nontrivial = True
                    out.count("degenerate_between_state_carrying")
                    break
        if len(kinds) == 1:
            try:
                ref = _build(spec).get_series(total)
            except Exception as e:
                out.violate("exception", site, f"one-shot get_series({total}) raised {type(e).__name__}: {e}")
                continue
            ref = np.asarray(ref)
            if not _bits_equal(cat, ref):
                cls = "chunked_vs_oneshot" if "series" in kinds else "sample_run_vs_oneshot"
                out.violate(cls, site, f"history {hist[g][:12]} total={total}: {_first_diff(cat, ref)}")
            out.count("oracle_oneshot")
        else:
            out.count("mixed_history")
        # direct-form reference cascade (R4b) on the recorded white input
        if taps[g] is not None and "samples" not in kinds:
            tap, st, co, scl = taps[g]
            white = np.concatenate(tap.blocks) if tap.blocks else np.zeros(0)
            if white.shape[0] == total:
                ref2 = _direct_form(site, white, st, co, scl)
                scale = float(np.max(np.abs(ref2))) if ref2.size else 0.0
                err = float(np.max(np.abs(ref2 - cat))) if ref2.size else 0.0
                if ref2.size and not (err <= 1e-10 * max(scale, 1e-300)):
                    out.violate("cascade_vs_direct_form", site, f"max |gen - lfilter cascade| = {err:.3e} at scale {scale:.3e}, history {hist[g][:12]}")
                out.count("oracle_direct_form")
            else:
                out.count("tap_length_mismatch_skipped")
        # twins
        if "twin_of" in spec:
            src = spec["twin_of"]
            if inst[src] is not None and not dead[src] and hist[src] == hist[g]:
                cs = np.concatenate(got[src]) if got[src] else np.zeros(0)
                if not _bits_equal(cs, cat):
                    out.violate("twin_mismatch", site, f"same-seed twins fed {hist[g][:12]} differ: {_first_diff(cs, cat)}")
                out.count("oracle_twin")
    if sc.get("xproc") is not None and sc["xproc"] < ng:
        _cross_process_check(sc, sc["xproc"], out)
    # kernel-level direct-form check of the cascade helper, compiled and interpreted
    _cascade_kernel_check(sc, out)
    if sc.get("concurrent"):
        _concurrent_consumers_check(sc, out)
    out.summary = {"gens": [(g["kind"], g.get("twin_of")) for g in gens], "nops": len(sc["ops"])}


_XPROC = r"""
import sys, json, pickle
import numpy as np
spec = json.loads(sys.argv[1])
from speckit import noise
k = spec["kind"]
if k == "white":
    g = noise.white_noise(spec["fs"], psd=spec["psd"], seed=spec["seed"])
elif k == "red":
    g = noise.red_noise(spec["fs"], spec["fmin"], init_filter=spec["init"], seed=spec["seed"])
elif k == "alpha":
    g = noise.alpha_noise(spec["fs"], spec["fmin"], spec["fmax"], spec["alpha"], init_filter=spec["init"], seed=spec["seed"])
else:
    g = noise.pink_noise(spec["fs"], spec["fmin"], spec["fmax"], init_filter=spec["init"], seed=spec["seed"])
sys.stdout.buffer.write(np.asarray(g.get_series(int(sys.argv[2])), dtype=np.float64).tobytes())
"""


def _fork_samples(gen, spec, m, got_g, hist_g, out):
    """os.fork() in the middle of a get_sample run: the child's next m samples must be the continuation of the stream,
    i.e. equal to the parent's own next m samples."""
    import os
    import struct

    if not hasattr(os, "fork"):
        return
    r_fd, w_fd = os.pipe()
    try:
        pid = os.fork()
    except OSError:
        os.close(r_fd); os.close(w_fd)
        return
    if pid == 0:
        code = 0
        try:
            os.close(r_fd)
            vals = [float(gen.get_sample()) for _ in range(m)]
            os.write(w_fd, struct.pack("<%dd" % m, *vals))
        except BaseException:
            code = 3
        finally:
            os._exit(code)
    os.close(w_fd)
    data = b""
    while True:
        chunk = os.read(r_fd, 65536)
        if not chunk:
            break
        data += chunk
    os.close(r_fd)
    _, status = os.waitpid(pid, 0)
    mine = np.array([gen.get_sample() for _ in range(m)], dtype=np.float64)
    got_g.append(mine)
    hist_g.append(("samples", m))
    out.count("fork_in_sample_run")
    if status != 0 or len(data) != 8 * m:
        out.violate("exception", spec["kind"], f"forked child failed to continue the get_sample run (status {status}, {len(data)} bytes)")
        return
    child = np.frombuffer(data, dtype="<f8")
    if child.tobytes() != mine.tobytes():
        out.violate("fork_child_stream_differs", spec["kind"], f"after os.fork() the child's next {m} get_sample() values differ from the parent's: {_first_diff(mine, child)}")


def _cross_process_check(sc, g, out):
    """Seed reproducibility across interpreters: the same constructor + seed in a fresh process (different string-hash
    salt, nothing cached) must give the same samples as in this process."""
    import json as _json
    import os
    import subprocess
    import sys

    spec = sc["gens"][g]
    n = 257
    try:
        here = np.asarray(_build(spec).get_series(n), dtype=np.float64)
    except Exception:
        return
    env = dict(os.environ, PYTHONHASHSEED=str(1000 + (sc.get("seed", 0) % 1000)))
    p = subprocess.run([sys.executable, "-c", _XPROC, _json.dumps({k: v for k, v in spec.items() if k not in ("mode", "cousin_of", "twin_of", "seed_type")}), str(n)],
                       capture_output=True, env=env, timeout=300)
    out.count("instance_in_fresh_interpreter")
    if p.returncode != 0:
        out.violate("exception", spec["kind"], f"constructing the generator in a fresh interpreter failed: {p.stderr.decode(errors='replace')[-200:]}")
        return
    there = np.frombuffer(p.stdout, dtype=np.float64)
    if there.shape != here.shape or there.tobytes() != here.tobytes():
        out.violate("same_seed_differs_across_processes", spec["kind"], f"seed {spec['seed']}: {_first_diff(here, there)}")
    out.observe(here)


def _is_noise_source(code):
    return code.co_filename.endswith("/speckit/noise.py")


def _consume(inst, reqs):
    res = []
    for kind, n in reqs:
        if kind == "series":
            res.append(np.array(inst.get_series(n), dtype=np.float64, copy=True))
        else:
            res.append(np.array([inst.get_sample() for _ in range(min(n, 40))], dtype=np.float64))
    return np.concatenate(res) if res else np.zeros(0)


def _concurrent_consumers_check(sc, out):
    """Independent generator instances, one per simulated caller thread.  The colouring kernel runs interpreted here so
    that the scheduler can pre-empt inside it (a compiled kernel that released the GIL would be pre-empted by the OS at
    the same places); instances are built first, with the compiled kernel, so settling stays cheap."""
    from speckit import noise
    from dsim import sched

    cc = sc["concurrent"]
    gens = sc["gens"]
    specs = [gens[g] for g in cc["gens"] if g < len(gens)]
    if len(specs) < 2:
        return
    try:
        alone = [_build(sp) for sp in specs]
        together = [_build(sp) for sp in specs]
    except Exception:
        return          # constructor failures are reported by the main history
    fn = getattr(noise, "_numba_lfilter_cascade", None)
    py = getattr(fn, "py_func", None)
    if py is not None:
        noise._numba_lfilter_cascade = py
    try:
        try:
            ref = [_consume(alone[i], cc["reqs"][i]) for i in range(len(specs))]
        except Exception as e:
            out.violate("exception", "consumer_alone", f"{type(e).__name__}: {str(e)[:160]}")
            return
        res = [None] * len(specs)
        errs = [None] * len(specs)

        def task(i):
            def run():
                try:
                    res[i] = _consume(together[i], cc["reqs"][i])
                except Exception as e:  # noqa: BLE001
                    if type(e).__name__ in ("HarnessError", "SimDeadlock"):
                        raise
                    errs[i] = e
            return run

        stats = sched.Stats()
        baton = sched.Baton(R.stream(cc["sched"], "sched"), _is_noise_source, stats, None)
        baton.run([task(i) for i in range(len(specs))])
    finally:
        if py is not None:
            noise._numba_lfilter_cascade = fn
    out.sim_steps += stats.steps
    out.sim_handovers += stats.handovers
    for k, v in stats.policies.items():
        out.count("policy_" + k, v)
    out.count("concurrent_consumers")
    if stats.handovers > len(specs):
        out.count("concurrent_consumers_interleaved")
    if stats.ndecisions:
        out.extra.setdefault("schedule_digests", []).append(stats.decisions.hexdigest()[:12])
    out.observe("sched", stats.decisions.hexdigest()[:16], stats.steps)
    for i, sp in enumerate(specs):
        if errs[i] is not None:
            out.violate("exception", "concurrent_consumers", f"{sp['kind']} consumed next to {[q['kind'] for q in specs]} raised {type(errs[i]).__name__}: {str(errs[i])[:160]}")
        elif not _bits_equal(res[i], ref[i]):
            out.violate("concurrent_consumers_differ", sp["kind"], f"stream of an independent {sp['kind']} generator changes when other generators ({[q['kind'] for q in specs]}) are consumed by concurrent threads: {_first_diff(ref[i], res[i])}")
        else:
            out.observe(res[i])


def _cascade_kernel_check(sc, out):
    from speckit import noise
    from scipy.signal import lfilter

    fn = getattr(noise, "_numba_lfilter_cascade", None)
    if fn is None:
        out.count("cascade_helper_absent")
        return
    # the helper is private: if a maintainer changed its calling convention this direct oracle does not apply (the
    # generator-level comparison with the direct-form cascade, R4b, still does)
    try:
        import inspect

        params = list(inspect.signature(getattr(fn, "py_func", fn)).parameters)
    except (TypeError, ValueError):
        params = None
    if params is not None and len(params) != 4:
        out.count("cascade_helper_signature_changed")
        return
    rk = R.stream(sc.get("seed", 0), "cascade")
    nprng = np.random.default_rng(R.np_seed(sc.get("seed", 0), "cascade"))
    nsec = rk.randrange(1, 6)
    a = np.column_stack([nprng.uniform(0.5, 2.0, nsec), nprng.uniform(-1.5, 1.5, nsec)])
    b = np.column_stack([np.ones(nsec), -nprng.uniform(0.0, 0.999, nsec)])
    if rk.random() < 0.5:
        # shelving sections as a 1/f^alpha design produces them (bilinear first-order, corners down to 1e-7 of the rate):
        # numerator and denominator coefficients nearly equal, DC gain f_hi/f_lo far from 1
        flo = 10.0 ** nprng.uniform(-7.0, -1.0, nsec)
        fhi = flo * 10.0 ** nprng.uniform(0.05, 1.0, nsec)
        den = 1.0 + np.pi * flo
        a = np.column_stack([(1.0 + np.pi * fhi) / den, -(1.0 - np.pi * fhi) / den])
        b = np.column_stack([np.ones(nsec), -(1.0 - np.pi * flo) / den])
    zi0 = nprng.normal(size=(nsec, 1))
    chunks = [rk.choice([0, 1, 2, 5, 33, 400, 400, 8192]) for _ in range(rk.randrange(1, 5))]
    x = nprng.normal(size=sum(chunks))
    for variant in ("compiled", "py_func"):
        f = fn if variant == "compiled" else getattr(fn, "py_func", None)
        if f is None:
            continue
        zi = zi0.copy()
        outs = []
        pos = 0
        try:
            for c in chunks:
                y, zi = f(x[pos:pos + c].copy(), a, b, zi)
                outs.append(np.array(y, copy=True))
                pos += c
        except Exception as e:
            out.violate("exception", "cascade_helper", f"{variant} raised {type(e).__name__}: {e}")
            continue
        y = np.concatenate(outs) if outs else np.zeros(0)
        ref = x.copy()
        for i in range(nsec):
            if ref.size:
                ref, _ = lfilter(a[i], b[i], ref, zi=zi0[i])
        if ref.size:
            err = float(np.max(np.abs(ref - y)))
            sc_ = float(np.max(np.abs(ref)))
            if not err <= 1e-10 * max(sc_, 1e-300):
                out.violate("cascade_vs_direct_form", "cascade_helper", f"{variant}: chunks {chunks}, {nsec} sections, err {err:.3e}")
        out.observe(y)
        out.count("oracle_cascade_helper")


# --------------------------------------------------------------------------
# minimisation
# --------------------------------------------------------------------------

def size(sc):
    return len(sc["ops"]) + len(sc["gens"])


def shrink_candidates(sc):
    yield from S.drop_chunks(sc, "ops")
    # make every generator alive from the start
    if not all(sc["initially_alive"]):
        c = copy.deepcopy(sc)
        c["initially_alive"] = [True] * len(c["gens"])
        c["ops"] = [o for o in c["ops"] if o[0] != "spawn"]
        yield c
    # drop unused generators (keep indices stable: only drop trailing ones)
    used = {o[1] for o in sc["ops"]} | {g.get("twin_of", -1) for g in sc["gens"]}
    while len(sc["gens"]) - 1 not in used and len(sc["gens"]) > 1:
        c = copy.deepcopy(sc)
        c["gens"].pop()
        c["initially_alive"].pop()
        yield c
        break
    for i, o in enumerate(sc["ops"]):
        if o[0] in ("series", "samples"):
            for v in S.smaller_ints(o[2], 0 if o[0] == "series" else 1):
                c = copy.deepcopy(sc)
                c["ops"][i][2] = v
                yield c
    for i, g in enumerate(sc["gens"]):
        if g.get("init"):
            c = copy.deepcopy(sc)
            c["gens"][i]["init"] = False
            yield c
