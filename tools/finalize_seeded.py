#!/venv/bin/python
"""Complete seeded/<prop>/<name>/meta.json (breaks / needs / caught_by) and print the DESIGN §10 table rows.

usage: tools/finalize_seeded.py            (reads tools/seeded_needs.json and every seeded/*/*/meta.json)
"""
import glob
import json
import os

VERIF = "/verif"
needs = json.load(open(os.path.join(VERIF, "tools", "seeded_needs.json")))
rows = []
for mp in sorted(glob.glob(os.path.join(VERIF, "seeded", "*", "*", "meta.json"))):
    m = json.load(open(mp))
    key = f"{m['property']}/{m['name']}"
    m["breaks_property"] = m["property"]
    m["needs_to_manifest"] = needs.get(key, m.get("needs_to_manifest", "see notes.md"))
    caught = []
    for c, r in (m.get("checks") or {}).items():
        if r.get("rc") == 1:
            classes = sorted({l.split("class=")[1].split(" ")[0] for l in r.get("violation_lines", []) if "class=" in l})
            caught.append({"check": c, "tier": "quick", "violation_classes": classes})
    m["caught_by"] = caught
    m["confirmed"] = {
        "patch_applies": "error" not in m,
        "demo_exit_unchanged_tree": m.get("demo_unchanged_rc"),
        "demo_exit_changed_tree": m.get("demo_changed_rc"),
        "existing_test_suite_with_change": m.get("tests_tail", "confirmed in an earlier evaluation run (see ran)"),
    }
    json.dump(m, open(mp, "w"), indent=1)
    cb = "; ".join(f"{c['check']} ({', '.join(c['violation_classes'][:3])})" for c in caught) or "**not caught**"
    rows.append(f"| `{key}` | {m['property']} | {m['needs_to_manifest']} | {cb} |")
print("\n".join(rows))
